//! libFuzzer target: bytes -> recipe -> typed case -> the same executor and oracles as the proptest checks.
//! VERIF_FUZZ_PROPERTY selects the property whose case space and oracle interpret the bytes (default: the
//! first byte chooses). An oracle failure writes a replay file into VERIF_FUZZ_OUT and aborts; panics of
//! corgi itself are data (refusals) and never abort the process.
#![no_main]
use checks::fuzzing::*;
use libfuzzer_sys::fuzz_target;
use std::sync::OnceLock;

static PROPERTY: OnceLock<Option<String>> = OnceLock::new();

fuzz_target!(|data: &[u8]| {
    let prop = PROPERTY.get_or_init(|| {
        // libfuzzer-sys aborts on every panic; refusal-by-panic is legal behaviour here
        std::panic::set_hook(Box::new(|_| {}));
        std::env::var("VERIF_FUZZ_PROPERTY").ok().filter(|s| !s.is_empty())
    });
    if data.is_empty() {
        return;
    }
    let (p, body): (&str, &[u8]) = match prop {
        Some(p) => (p.as_str(), data),
        None => (FUZZ_PROPERTIES[data[0] as usize % FUZZ_PROPERTIES.len()], &data[1..]),
    };
    if let Some(f) = fuzz_one(p, body) {
        let out = std::env::var("VERIF_FUZZ_OUT").unwrap_or_else(|_| "/verif/replays".into());
        let failure = checks::runner::Failure { fail: f.fail.clone(), kind_tag: f.kind_tag.clone(), campaign: "libfuzzer".into(), case: f.case.clone(), size: 0, replay_path: None };
        let path = checks::runner::write_replay_in(&out, &f.property, &failure);
        eprintln!("FUZZ-VIOLATION property={} replay={} signature={}", f.property, path, f.fail.signature);
        std::process::abort();
    }
});
