use corgi::array::*;
use std::panic::{catch_unwind, AssertUnwindSafe};
use std::collections::BTreeMap;
fn close(a: &[f64], b: &[f64]) -> bool { a.len()==b.len() && a.iter().zip(b).all(|(x,y)| (x-y).abs() <= 1e-4*(1.0+x.abs().max(y.abs()))) }
fn vals(n: usize, m: f64) -> Vec<f64> { (0..n).map(|i| ((i*7+3) % 11) as f64 * m * 0.1 + 0.5).collect() }
fn ref_conv(img: &[usize], iv: &[f64], f: &[usize], fv: &[f64], s: (usize,usize)) -> (Vec<usize>, Vec<f64>) {
    let n = img.len(); let (d,r,c) = (img[n-3],img[n-2],img[n-1]); let batch: usize = img[..n-3].iter().product();
    let (cnt, fr, fc) = (f[0],f[2],f[3]); let or = (r-fr)/s.0+1; let oc = (c-fc)/s.1+1;
    let mut od = img[..n-3].to_vec(); od.extend([cnt,or,oc]); let mut out = vec![0.0; batch*cnt*or*oc];
    for b in 0..batch { for q in 0..cnt { for y in 0..or { for x in 0..oc { let mut sum=0.0;
        for k in 0..d { for m in 0..fr { for nn in 0..fc { sum += iv[((b*d+k)*r + y*s.0+m)*c + x*s.1+nn] * fv[((q*d+k)*fr+m)*fc+nn]; }}}
        out[((b*cnt+q)*or+y)*oc+x] = sum; }}}}
    (od,out)
}
fn main() {
    std::panic::set_hook(Box::new(|_| {}));
    let mut stats: BTreeMap<String,usize> = BTreeMap::new(); let mut ex: BTreeMap<String,Vec<String>> = BTreeMap::new();
    for batch in [vec![], vec![1], vec![2], vec![3], vec![2,2]] { for d in [1,2] { for (r,c) in [(3,3),(4,5),(5,4),(2,2)] { for cnt in [1,2,3] { for (fr,fc) in [(1,1),(2,2),(2,3),(3,2)] { for s in [(1,1),(2,1),(1,2),(2,2),(3,3)] {
        if fr>r || fc>c { continue }
        let mut img = batch.clone(); img.extend([d,r,c]); let f = vec![cnt,d,fr,fc];
        let iv = vals(img.iter().product(),1.0); let fv = vals(f.iter().product(),3.0);
        let (od,ov) = ref_conv(&img,&iv,&f,&fv,s);
        let run = |iv: &Vec<f64>, fv: &Vec<f64>, t: bool| { let mut i = Array::from((img.clone(), iv.clone())); let mut ff = Array::from((f.clone(), fv.clone())); if t { i = i.tracked(); ff = ff.tracked(); } let y = i.conv(&ff, s); (i,ff,y) };
        let got = catch_unwind(AssertUnwindSafe(|| { let (_,_,y) = run(&iv,&fv,false); (y.dimensions().to_vec(), y.values().to_vec()) }));
        let bk = match batch.len() { 0 => "b-".to_string(), _ => format!("b{:?}", batch) };
        let res = match &got { Err(_) => "PANIC", Ok((gd,gv)) => if *gd==od && close(gv,&ov) {"ok"} else if *gd==od {"WRONGVAL"} else {"WRONGDIM"} };
        let key = format!("fwd {} {}", bk, res); *stats.entry(key.clone()).or_default() += 1; let e = ex.entry(key).or_default(); if e.len()<3 { e.push(format!("{:?} f{:?} s{:?}", img, f, s)); }
        if res != "ok" { continue }
        let seed: Vec<f64> = (0..ov.len()).map(|i| 1.0 + ((i*5)%7) as f64 * 0.5).collect();
        let bw = catch_unwind(AssertUnwindSafe(|| { let (i,ff,y) = run(&iv,&fv,true); y.backward(Some(Array::from((od.clone(), seed.clone())))); let gi = i.gradient().clone().unwrap(); let gf = ff.gradient().clone().unwrap(); (gi.dimensions().to_vec(), gi.values().to_vec(), gf.dimensions().to_vec(), gf.values().to_vec()) }));
        let mut egi = vec![0.0; iv.len()]; let mut egf = vec![0.0; fv.len()]; let nb: usize = batch.iter().product(); let or = od[od.len()-2]; let oc = od[od.len()-1];
        for b in 0..nb { for q in 0..cnt { for y in 0..or { for x in 0..oc { let sd = seed[((b*cnt+q)*or+y)*oc+x];
            for k in 0..d { for m in 0..fr { for nn in 0..fc { let ii = ((b*d+k)*r + y*s.0+m)*c + x*s.1+nn; let fi = ((q*d+k)*fr+m)*fc+nn; egi[ii] += sd*fv[fi]; egf[fi] += sd*iv[ii]; }}} }}}}
        for (w, name) in ["img","filt"].iter().enumerate() {
            let res = match &bw { Err(_) => "PANIC", Ok((d1,v1,d2,v2)) => { let (dd,vv,ed,ev) = if w==0 {(d1,v1,&img,&egi)} else {(d2,v2,&f,&egf)}; if dd!=ed {"WRONGDIM"} else if close(vv,ev) {"ok"} else {"WRONGVAL"} } };
            let key = format!("bwd {} {} {}", name, bk, res); *stats.entry(key.clone()).or_default() += 1; let e = ex.entry(key).or_default(); if e.len()<2 { e.push(format!("{:?} f{:?} s{:?}", img, f, s)); }
        }
    }}}}}}
    for (k,v) in &stats { println!("{} {} {}", k, v, if k.ends_with(" ok") { String::new() } else { format!("{:?}", ex[k]) }); }
}
