use corgi::array::*; use corgi::layer::{Layer, conv::Conv, dense::Dense}; use corgi::{initializer, activation};
fn main() {
    let init = initializer::he();
    let mut c = Conv::new((2,1,2,2),(1,1),&init,None);
    let x = Array::from((vec![3,1,3,3], (0..27).map(|i| (i as f64 * 0.7).sin()).collect::<Vec<_>>()));
    let y = c.forward(x.clone());
    let p = c.parameters(); let (f, b) = (p[0].values().to_vec(), p[1].values().to_vec());
    let mut maxerr = 0.0f64;
    for n in 0..3 { for q in 0..2 { for i in 0..2 { for j in 0..2 { let mut s = b[q]; for m in 0..2 { for k in 0..2 { s += x.values()[n*9 + (i+m)*3 + j+k] * f[q*4 + m*2 + k]; } } maxerr = maxerr.max((s - y.values()[((n*2+q)*2+i)*2+j]).abs()); }}}}
    println!("batched conv layer dims {:?} maxerr {:e}", y.dimensions(), maxerr);
    y.backward(None); let p = c.parameters(); println!("grad dims {:?} {:?}", p[0].gradient().as_ref().unwrap().dimensions(), p[1].gradient().as_ref().unwrap().dimensions());
    println!("bias grad {:?} (expect 12 each)", p[1].gradient().as_ref().unwrap().values());
    let relu = activation::relu(); let d = Dense::new(3,2,&init,Some(&relu)); println!("dense single {:?} batch {:?}", d.forward(Array::from(vec![1.0,2.0,3.0])).dimensions(), d.forward(Array::from((vec![4,3], vec![0.5;12]))).dimensions());
}
