#[path="../common.rs"] mod common; use common::*;
use corgi::array::*;
use std::panic::{catch_unwind, AssertUnwindSafe};
use std::collections::BTreeMap;
fn close(a: &[f64], b: &[f64]) -> bool { a.len()==b.len() && a.iter().zip(b).all(|(x,y)| (x-y).abs() <= 1e-4*(1.0+x.abs().max(y.abs()))) }
pub fn ref_matmul(a: &[usize], av: &[f64], ta: bool, b: &[usize], bv: &[f64], tb: bool, c: Option<(&[usize], &[f64])>) -> Option<(Vec<usize>, Vec<f64>)> {
    let both1 = a.len()==1 && b.len()==1;
    if both1 && (ta || tb) { return None }
    let a2: Vec<usize> = if a.len()==1 { vec![1,a[0]] } else { a.to_vec() };
    let b2: Vec<usize> = if b.len()==1 { if both1 { vec![b[0],1] } else { vec![1,b[0]] } } else { b.to_vec() };
    let (al, am) = a2.split_at(a2.len()-2); let (bl, bm) = b2.split_at(b2.len()-2);
    let (r, k1) = if ta {(am[1], am[0])} else {(am[0], am[1])}; let (k2, cc) = if tb {(bm[1], bm[0])} else {(bm[0], bm[1])};
    if k1 != k2 { return None }
    let lead: Vec<usize> = bshape(al, bl)?;
    let mut od = lead.clone(); od.push(r); od.push(cc);
    if let Some((cd,_)) = c { // c must broadcast to od (right aligned) 
        if cd.len() > od.len() { return None } let off = od.len()-cd.len(); for q in 0..cd.len() { if cd[q] != 1 && cd[q] != od[q+off] { return None } } }
    let n: usize = od.iter().product(); let mut out = vec![0.0; n]; let nl: usize = lead.iter().product();
    for l in 0..nl { let li = unravel(l, &lead);
        let ao = if al.is_empty() {0} else { bidx(&li, al) * am[0]*am[1] }; let bo = if bl.is_empty() {0} else { bidx(&li, bl) * bm[0]*bm[1] };
        for i in 0..r { for j in 0..cc { let mut s = 0.0; for k in 0..k1 { let x = if ta { av[ao + k*am[1] + i] } else { av[ao + i*am[1] + k] }; let y = if tb { bv[bo + j*bm[1] + k] } else { bv[bo + k*bm[1] + j] }; s += x*y; }
            let mut cv = 0.0; if let Some((cd, cvv)) = c { let mut idx = li.clone(); idx.push(i); idx.push(j); cv = cvv[bidx(&idx, cd)]; }
            out[(l*r + i)*cc + j] = s + cv; }}}
    if both1 { od = vec![1]; }
    Some((od, out))
}
fn vals(n: usize, m: f64) -> Vec<f64> { (0..n).map(|i| ((i*7+3) % 11) as f64 * m * 0.1 + 0.5).collect() }
fn main() {
    std::panic::set_hook(Box::new(|_| {}));
    let mut stats: BTreeMap<String,usize> = BTreeMap::new(); let mut ex: BTreeMap<String,Vec<String>> = BTreeMap::new();
    let leads: Vec<Vec<usize>> = vec![vec![], vec![1], vec![2], vec![1,1], vec![1,2], vec![2,1], vec![2,3], vec![3,1], vec![1,3]];
    let mut cases: Vec<(Vec<usize>,bool,Vec<usize>,bool,usize,usize)> = vec![];
    for la in &leads { for lb in &leads { for &(r,k,c) in &[(1,1,1),(2,3,2),(1,3,2),(2,1,3),(3,2,1)] { for ta in [false,true] { for tb in [false,true] {
        let mut a = la.clone(); if ta { a.push(k); a.push(r) } else { a.push(r); a.push(k) } let mut b = lb.clone(); if tb { b.push(c); b.push(k) } else { b.push(k); b.push(c) }
        cases.push((a,ta,b,tb,r,c)); }}}}}
    // rank-1 forms + mismatches
    for (a,ta,b,tb) in [(vec![3],false,vec![3],false),(vec![3],false,vec![4],false),(vec![4],false,vec![3],false),(vec![3],false,vec![3,2],false),(vec![3],false,vec![2,3],true),(vec![2,3],false,vec![3],false),(vec![2,3],false,vec![3],true),(vec![2,1],false,vec![3],false),(vec![3],true,vec![1,2],false),(vec![3],false,vec![2,3,2],false),(vec![2,2,3],false,vec![3],true),(vec![3],false,vec![4,2],false),(vec![2,3],false,vec![4,2],false),(vec![2,3],true,vec![3,2],false),(vec![1],false,vec![1],false)] {
        let r = if a.len()==1 { if ta {a[0]} else {1} } else if ta { a[a.len()-1] } else { a[a.len()-2] }; let c = if b.len()==1 { if a.len()==1 {1} else if tb {1} else {b[0]} } else if tb { b[b.len()-2] } else { b[b.len()-1] };
        cases.push((a,ta,b,tb,r,c)); }
    for (a,ta,b,tb,r,c) in &cases { let (ta,tb,r,c) = (*ta,*tb,*r,*c);
        let av = vals(a.iter().product(), 1.0); let bv = vals(b.iter().product(), 2.0);
        for cvar in 0..5 {
            let cd: Option<Vec<usize>> = match cvar { 0 => None, 1 => Some(vec![c]), 2 => Some(vec![r,c]), 3 => Some(vec![1,c]), _ => Some(vec![1]) };
            if a.len()==1 && b.len()==1 && cvar != 0 && cvar != 4 { continue }
            let dims = [Some(a.clone()), Some(b.clone()), cd.clone()];
            let xs: Vec<Vec<f64>> = dims.iter().enumerate().map(|(i,d)| d.as_ref().map(|d| vals(d.iter().product(), (i+1) as f64)).unwrap_or_default()).collect();
            let rf = ref_matmul(a,&xs[0],ta,b,&xs[1],tb, cd.as_ref().map(|d| (&d[..], &xs[2][..])));
            let run = |xs: &Vec<Vec<f64>>, tracked: bool| -> (Vec<Array>, Array) { let arrs: Vec<Array> = (0..3).filter(|i| dims[*i].is_some()).map(|i| { let x = Array::from((dims[i].clone().unwrap(), xs[i].clone())); if tracked { x.tracked() } else { x } }).collect(); let y = Array::matmul((&arrs[0],ta),(&arrs[1],tb), arrs.get(2)); (arrs, y) };
            let got = catch_unwind(AssertUnwindSafe(|| { let (_,y) = run(&xs,false); (y.dimensions().to_vec(), y.values().to_vec()) }));
            let res = match (&rf,&got) { (None,Err(_)) => "refused_ok", (None,Ok(_)) => "SHOULD_REFUSE", (Some(_),Err(_)) => "PANIC", (Some((d,v)),Ok((gd,gv))) => if d==gd && close(v,gv) {"ok"} else if d==gd {"WRONGVAL"} else {"WRONGDIM"} };
            let key = format!("fwd {}", res); *stats.entry(key.clone()).or_default() += 1; let e = ex.entry(key).or_default(); if e.len()<6 { e.push(format!("{:?}{}x{:?}{} c={:?} got={:?}", a, if ta {"T"} else {""}, b, if tb {"T"} else {""}, cd, got.as_ref().ok().map(|g| g.0.clone()))); }
            if res != "ok" || a.iter().product::<usize>() > 40 { continue }
            let (od,ov) = rf.unwrap(); let seed: Vec<f64> = (0..ov.len()).map(|i| 1.0 + ((i*5)%7) as f64 * 0.5).collect();
            let gotb = catch_unwind(AssertUnwindSafe(|| { let (arrs,y) = run(&xs,true); y.backward(Some(Array::from((od.clone(), seed.clone())))); arrs.iter().map(|x| { let g = x.gradient().clone().unwrap(); (g.dimensions().to_vec(), g.values().to_vec()) }).collect::<Vec<_>>() }));
            for w in 0..3 { if dims[w].is_none() { continue }
                let h = 1e-6; let n = xs[w].len(); let mut exp = vec![0.0; n];
                for i in 0..n { let mut p = xs.clone(); p[w][i] += h; let mut m = xs.clone(); m[w][i] -= h; let (_,yp) = run(&p,false); let (_,ym) = run(&m,false); exp[i] = yp.values().iter().zip(ym.values()).zip(&seed).map(|((a,b),s)| (a-b)/(2.0*h)*s).sum(); }
                let res = match &gotb { Err(_) => "PANIC", Ok(g) => if g[w].0 != *dims[w].as_ref().unwrap() {"WRONGDIM"} else if close(&g[w].1,&exp) {"ok"} else {"WRONGVAL"} };
                let key = format!("bwd wrt{} {}", ["A","B","C"][w], res); *stats.entry(key.clone()).or_default() += 1; let e = ex.entry(key).or_default(); if e.len()<6 { e.push(format!("{:?}{}x{:?}{} c={:?}", a, if ta {"T"} else {""}, b, if tb {"T"} else {""}, cd)); }
            }
        }
    }
    for (k,v) in &stats { println!("{} {} {}", k, v, if k.ends_with(" ok") || k.ends_with("refused_ok") { String::new() } else { format!("{:?}", ex[k]) }); }
}
