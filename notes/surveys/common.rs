
pub fn bshape(a: &[usize], b: &[usize]) -> Option<Vec<usize>> {
    let n = a.len().max(b.len());
    let mut out = vec![0; n];
    for i in 0..n {
        let x = if i < n - a.len() { 1 } else { a[i - (n - a.len())] };
        let y = if i < n - b.len() { 1 } else { b[i - (n - b.len())] };
        if x == y || x == 1 || y == 1 { out[i] = x.max(y); } else { return None; }
    }
    Some(out)
}
pub fn strides(d: &[usize]) -> Vec<usize> { let mut s = vec![1; d.len()]; for i in (0..d.len().saturating_sub(1)).rev() { s[i] = s[i+1]*d[i+1]; } s }
pub fn unravel(mut f: usize, d: &[usize]) -> Vec<usize> { let mut idx = vec![0; d.len()]; for i in (0..d.len()).rev() { idx[i] = f % d[i]; f /= d[i]; } idx }
pub fn bidx(idx: &[usize], d: &[usize]) -> usize { let off = idx.len() - d.len(); let s = strides(d); (0..d.len()).map(|i| if d[i]==1 {0} else {idx[i+off]*s[i]}).sum() }
pub fn ref_ew(a: &[usize], av: &[f64], b: &[usize], bv: &[f64], f: impl Fn(f64,f64)->f64) -> Option<(Vec<usize>, Vec<f64>)> {
    let o = bshape(a,b)?; let n: usize = o.iter().product();
    let v = (0..n).map(|k| { let idx = unravel(k,&o); f(av[bidx(&idx,a)], bv[bidx(&idx,b)]) }).collect();
    Some((o,v))
}
pub fn shapes(maxrank: usize, maxd: usize) -> Vec<Vec<usize>> {
    let mut all = vec![]; 
    for r in 1..=maxrank { let n = maxd.pow(r as u32); for k in 0..n { let mut s = vec![]; let mut kk = k; for _ in 0..r { s.push(kk % maxd + 1); kk /= maxd; } all.push(s); } }
    all
}
