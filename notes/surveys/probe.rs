use corgi::array::*;
use corgi::layer::{Layer, dense::Dense, conv::Conv};
use corgi::model::Model;
use corgi::optimizer::{Optimizer, gd::GradientDescent};
use corgi::{activation, cost, initializer};
use std::panic::{catch_unwind, AssertUnwindSafe};
fn sole(a: Array) -> bool { catch_unwind(AssertUnwindSafe(|| { let _v: Vec<f64> = a.into(); })).is_ok() }
fn main() {
    std::panic::set_hook(Box::new(|_| {}));
    // C18 over ops
    let mk = || Array::from((vec![1,2,4,4], (0..32).map(|x| 0.5 + x as f64*0.1).collect::<Vec<_>>())).tracked();
    let ops: Vec<(&str, Box<dyn Fn(&Array)->Array>)> = vec![
        ("add", Box::new(|a| a + a)), ("mul", Box::new(|a| a * a)), ("div", Box::new(|a| a / a)), ("sub", Box::new(|a| a - a)), ("neg", Box::new(|a| -a)), ("scale", Box::new(|a| a * 2.0)),
        ("powf", Box::new(|a| a.powf(2.0))), ("ln", Box::new(|a| a.ln())), ("exp", Box::new(|a| a.exp())), ("recip", Box::new(|a| a.reciprocal())), ("sum1", Box::new(|a| a.sum(1))), ("sum0", Box::new(|a| a.sum(0))),
        ("reshape", Box::new(|a| a.reshape(vec![32]))), ("matmul", Box::new(|a| Array::matmul((a,false),(a,true),None))), ("matmul_c", Box::new(|a| Array::matmul((a,false),(a,true),Some(&Array::from(vec![1.0]).tracked())))),
        ("conv", Box::new(|a| { let d = a.dimensions().to_vec(); let n = d.len(); a.conv(&Array::from((vec![1,d[n-3],1,1], vec![2.0; d[n-3]])).tracked(), (1,1)) })), ("relu", Box::new(|a| a.relu())), ("sigmoid", Box::new(|a| a.sigmoid())), ("softmax", Box::new(|a| a.softmax())),
    ];
    for (n, f) in &ops {
        let a = mk(); let r = f(&a); let r2 = f(&r);
        let bw = catch_unwind(AssertUnwindSafe(|| r2.backward(None))).is_ok();
        drop(r); drop(r2);
        let hasg = a.gradient().is_some();
        let with_g = sole(a.clone()); // clone shares -> must be false (sanity of observer)
        let s1 = sole(a);
        let b = mk(); { let r = f(&b); r.backward(None); } b.replace_gradient(); let s2 = sole(b);
        let c = Array::from(vec![1.0,2.0]); let cc = Array::from((vec![1,2,4,4], vec![1.0;32])); { let _r = f(&cc); } let s3 = sole(cc); let _ = c;
        println!("{:10} bw_ok={} grad={} observer_sanity={} sole_with_grad={} sole_cleared={} untracked_sole={}", n, bw, hasg, !with_g, s1, s2, s3);
    }
    // C09: flag restoration
    let a = Array::from(vec![1.0,2.0]).tracked(); let b = Array::from(vec![3.0,4.0]); let y = &a * &b; let z = &y + &a; z.backward(None);
    println!("flags after: a prev {} b prev {} y prev {} z prev {}", a.start_tracking(), b.start_tracking(), y.start_tracking(), z.start_tracking());
    println!("grad tracked? {:?}", a.gradient().as_ref().map(|g| g.start_tracking()));
    // C13
    let gd = GradientDescent::new(0.5);
    let mut p1 = Array::from((vec![2,2], vec![1.,2.,3.,4.])).tracked(); let mut p2 = Array::from(vec![10.,20.,30.]).tracked(); let mut p3 = Array::from((vec![1,2], vec![5.,6.])).tracked();
    *p1.gradient_mut() = Some(Array::from((vec![2,2], vec![1.,1.,2.,2.]))); *p3.gradient_mut() = Some(Array::from((vec![1,2], vec![4.,8.])));
    let old = p1.clone();
    gd.update(vec![&mut p1, &mut p2, &mut p3]);
    println!("p1 {:?} {:?} g={} | p2 {:?} | p3 {:?} old p1 {:?}", p1.dimensions(), p1.values(), p1.gradient().is_some(), p2.values(), p3.values(), old.values());
    // C14/15 quick: dense model loop loss values vs manual? just smoke with batch + unbatched
    let init = initializer::he(); let relu = activation::relu(); let sm = activation::softmax(); let ce = cost::cross_entropy(); let gd = GradientDescent::new(0.1);
    let mut l1 = Dense::new(3, 4, &init, Some(&relu)); let mut l2 = Dense::new(4, 2, &init, Some(&sm));
    let mut model = Model::new(vec![&mut l1, &mut l2], &gd, &ce);
    for it in 0..3 { let x = Array::from((vec![5,3], (0..15).map(|i| (i as f64*0.37).sin()).collect::<Vec<_>>())); let t = Array::from((vec![5,2], (0..10).map(|i| (i%2) as f64).collect::<Vec<_>>()));
        let out = model.forward(x); let loss = model.backward(t); model.update(); println!("it {} out {:?} loss {}", it, out.dimensions(), loss); }
    // conv layers: two convs second overlapping
    let mse = cost::mse();
    let mut c1 = Conv::new((2,1,2,2),(1,1),&init,None); let mut c2 = Conv::new((1,2,2,2),(1,1),&init,None);
    let p = c1.parameters(); println!("conv params dims {:?} {:?}", p[0].dimensions(), p[1].dimensions());
    let mut model = Model::new(vec![&mut c1, &mut c2], &gd, &mse);
    let out = model.forward(Array::from((vec![1,4,4], vec![0.5;16]))); println!("conv out {:?}", out.dimensions());
    let r = catch_unwind(AssertUnwindSafe(|| { let mut c = Conv::new((2,1,2,2),(1,1),&init,None); let m = c.forward(Array::from((vec![3,1,4,4], vec![0.5;48]))); m.dimensions().to_vec() })); println!("batched conv layer: {:?}", r.ok());
}
