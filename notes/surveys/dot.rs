use corgi::array::*;
use std::panic::{catch_unwind, AssertUnwindSafe};
fn main() {
    for (ad, bd, ta, tb) in [(vec![3], vec![3], false, false), (vec![3], vec![3,2], false, false), (vec![3], vec![2,3], false, true), (vec![2,3], vec![3], false, true), (vec![3], vec![1,2], true, false), (vec![2,1], vec![3], false, false), (vec![3], vec![2,3,2], false, false), (vec![2,2,3], vec![3], false, true)] {
        let a = Array::from((ad.clone(), (0..ad.iter().product::<usize>()).map(|x| x as f64 + 1.0).collect::<Vec<_>>())).tracked();
        let b = Array::from((bd.clone(), (0..bd.iter().product::<usize>()).map(|x| x as f64 * 2.0 + 1.0).collect::<Vec<_>>())).tracked();
        let r = catch_unwind(AssertUnwindSafe(|| { let y = Array::matmul((&a,ta),(&b,tb),None); let d = y.dimensions().to_vec(); y.backward(None); (d, a.gradient().clone().map(|g| (g.dimensions().to_vec(), g.values().to_vec())), b.gradient().clone().map(|g| (g.dimensions().to_vec(), g.values().to_vec()))) }));
        println!("{:?}{} x {:?}{} -> {:?}", ad, ta, bd, tb, r.ok());
    }
}
