use corgi::array::*; use corgi::layer::{Layer, dense::Dense}; use corgi::model::Model; use corgi::optimizer::gd::GradientDescent; use corgi::{initializer, activation, cost};
use std::rc::Rc; use std::cell::RefCell;
type Snap = Vec<(Vec<usize>, Vec<f64>, Option<Vec<f64>>)>;
struct Spy<L: Layer> { inner: L, log: Rc<RefCell<Vec<Snap>>> }
impl<L: Layer> Layer for Spy<L> {
    fn forward(&self, input: Array) -> Array { self.inner.forward(input) }
    fn parameters(&mut self) -> Vec<&mut Array> {
        let ps = self.inner.parameters();
        self.log.borrow_mut().push(ps.iter().map(|p| (p.dimensions().to_vec(), p.values().to_vec(), p.gradient().as_ref().map(|g| g.values().to_vec()))).collect());
        ps
    }
}
// custom logging op for C11
fn logged_mul(id: usize, log: Rc<RefCell<Vec<(usize, Vec<f64>)>>>, a: &Array, b: &Array) -> Array {
    let f: ForwardOp = Rc::new(|x: &[&Array]| Array::from((x[0].dimensions().to_vec(), x[0].values().iter().zip(x[1].values()).map(|(p,q)| p*q).collect::<Vec<f64>>())));
    let bw: BackwardOp = Rc::new(move |c, t, x| { log.borrow_mut().push((id, x.values().to_vec()));
        let m = |u: &Array| Array::from((u.dimensions().to_vec(), u.values().iter().zip(x.values()).map(|(p,q)| p*q).collect::<Vec<f64>>()));
        vec![ if t[0] { Some(m(&c[1])) } else { None }, if t[1] { Some(m(&c[0])) } else { None } ] });
    Array::op(&[a, b], f, Some(bw))
}
fn main() {
    let init = initializer::he(); let sig = activation::sigmoid(); let mse = cost::mse(); let gd = GradientDescent::new(0.5);
    let log1 = Rc::new(RefCell::new(vec![])); let log2 = Rc::new(RefCell::new(vec![]));
    let mut l1 = Spy { inner: Dense::new(2,3,&init,Some(&sig)), log: log1.clone() }; let mut l2 = Spy { inner: Dense::new(3,1,&init,None), log: log2.clone() };
    let mut model = Model::new(vec![&mut l1, &mut l2], &gd, &mse);
    for it in 0..3 { let x = Array::from((vec![4,2], (0..8).map(|i| ((i+it) as f64*0.3).cos()).collect::<Vec<_>>())); let t = Array::from((vec![4,1], vec![0.5, -0.5, 1.0, 0.0]));
        model.forward(x); let loss = model.backward(t); model.update(); println!("it {} loss {:.6} snapshots so far {} {}", it, loss, log1.borrow().len(), log2.borrow().len()); }
    model.update(); // gradient-free: exposes final params
    let l = log1.borrow(); for (i, s) in l.iter().enumerate() { println!("snap {} W[0..2]={:?} grad? {}", i, &s[0].1[..2], s[0].2.is_some()); }
    // check P_{t+1} = P_t - lr*g_t from snapshots alone
    for t in 0..3 { let (p, n) = (&l[t][0], &l[t+1][0]); let g = p.2.as_ref().unwrap(); let ok = p.1.iter().zip(g).zip(&n.1).all(|((o,g),n)| (*o - 0.5*g) == *n); println!("step {} consistent {}", t, ok); }
    // C11 logging
    let lg = Rc::new(RefCell::new(vec![])); let a = Array::from(vec![2.0, 3.0]).tracked();
    let mut c = logged_mul(0, lg.clone(), &a, &a); for d in 1..5 { c = logged_mul(d, lg.clone(), &c, &c); }
    c.backward(None); println!("log ids {:?}", lg.borrow().iter().map(|e| e.0).collect::<Vec<_>>()); println!("a grad {:?} (expect 32*a^31)", a.gradient().as_ref().unwrap().values());
}
