#[path="../common.rs"] mod common; use common::*;
use corgi::array::*;
use std::panic::{catch_unwind, AssertUnwindSafe};
use std::collections::BTreeMap;
fn reduce_to(o: &[usize], v: &[f64], a: &[usize]) -> Vec<f64> { let n: usize = a.iter().product(); let mut out = vec![0.0; n]; for k in 0..v.len() { let idx = unravel(k, o); out[bidx(&idx, a)] += v[k]; } out }
fn main() {
    std::panic::set_hook(Box::new(|_| {}));
    let sh = shapes(4, 3);
    let mut stats: BTreeMap<String, usize> = BTreeMap::new(); let mut ex: BTreeMap<String, Vec<String>> = BTreeMap::new();
    for a in &sh { for b in &sh {
        let na: usize = a.iter().product(); let nb: usize = b.iter().product();
        let av: Vec<f64> = (0..na).map(|x| (x+1) as f64).collect(); let bv: Vec<f64> = (0..nb).map(|x| ((x+2)*3) as f64).collect();
        let r = ref_ew(a,&av,b,&bv,|x,y| x*y);
        let aa = Array::from((a.clone(), av.clone())).tracked(); let bb = Array::from((b.clone(), bv.clone())).tracked();
        let got = catch_unwind(AssertUnwindSafe(|| { let c = &aa * &bb; (c.dimensions().to_vec(), c.values().to_vec()) }));
        let k = match (&r, &got) { (None, Err(_)) => "incompat_panic", (None, Ok(_)) => "incompat_RETURNED", (Some(_), Err(_)) => "compat_PANIC", (Some((d,v)), Ok((gd,gv))) => if d==gd && v==gv {"compat_ok"} else if d==gd {"compat_WRONGVAL"} else {"compat_WRONGDIM"} };
        *stats.entry(format!("fwd {}",k)).or_default() += 1;
        if k != "compat_ok" { continue }
        let r = r.unwrap(); let no: usize = r.0.iter().product();
        let seed: Vec<f64> = (0..no).map(|x| (x*x+1) as f64).collect();
        for uses in 1..=2 {
            let aa = Array::from((a.clone(), av.clone())).tracked(); let bb = Array::from((b.clone(), bv.clone())).tracked();
            let sb: Vec<f64> = (0..no).map(|k| { let idx = unravel(k,&r.0); seed[k]*bv[bidx(&idx,b)] * uses as f64}).collect();
            let sa: Vec<f64> = (0..no).map(|k| { let idx = unravel(k,&r.0); seed[k]*av[bidx(&idx,a)] * uses as f64}).collect();
            let ga = reduce_to(&r.0,&sb,a); let gb = reduce_to(&r.0,&sa,b);
            let got = catch_unwind(AssertUnwindSafe(|| { let c = if uses == 1 { &aa * &bb } else { &(&aa * &bb) + &(&aa * &bb) }; c.backward(Some(Array::from((r.0.clone(), seed.clone()))));
                let g1 = aa.gradient().clone().unwrap(); let g2 = bb.gradient().clone().unwrap(); (g1.dimensions().to_vec(), g1.values().to_vec(), g2.dimensions().to_vec(), g2.values().to_vec()) }));
            let k = match got { Err(_) => "PANIC", Ok((d1,v1,d2,v2)) => if d1==*a && d2==*b && v1==ga && v2==gb {"ok"} else if d1==*a && d2==*b {"WRONGVAL"} else {"WRONGDIM"} };
            let k = format!("bwd uses{} {}", uses, k); *stats.entry(k.clone()).or_default() += 1; let e = ex.entry(k).or_default(); if e.len() < 5 { e.push(format!("{:?}*{:?}", a, b)); }
        }
    }}
    for (k,v) in &stats { println!("{} {} {}", k, v, if k.ends_with("ok") || !ex.contains_key(k) { String::new() } else { format!("{:?}", ex[k]) }); }
}
