#[path="../common.rs"] mod common; use common::*;
use corgi::array::*;
use std::panic::{catch_unwind, AssertUnwindSafe};
use std::collections::BTreeMap;
fn num_vjp(f: &dyn Fn(&[f64]) -> Vec<f64>, x: &[f64], seed: &[f64]) -> Vec<f64> { let h = 1e-6; let mut g = vec![0.0; x.len()];
    for i in 0..x.len() { let mut p = x.to_vec(); p[i] += h; let mut m = x.to_vec(); m[i] -= h; let fp = f(&p); let fm = f(&m); g[i] = fp.iter().zip(&fm).zip(seed).map(|((a,b),s)| (a-b)/(2.0*h)*s).sum(); } g }
fn close(a: &[f64], b: &[f64]) -> bool { a.len()==b.len() && a.iter().zip(b).all(|(x,y)| (x-y).abs() <= 1e-4*(1.0+x.abs().max(y.abs()))) }
fn unary(name: &str, dims: Vec<usize>, op: &dyn Fn(&Array) -> Array, stats: &mut BTreeMap<String,usize>, ex: &mut BTreeMap<String,Vec<String>>) {
    let n: usize = dims.iter().product(); let xv: Vec<f64> = (0..n).map(|i| 0.3 + 0.17 * (i as f64) ).collect(); let d2 = dims.clone();
    let f = move |v: &[f64]| op(&Array::from((d2.clone(), v.to_vec()))).values().to_vec();
    let out = catch_unwind(AssertUnwindSafe(|| { let y = op(&Array::from((dims.clone(), xv.clone()))); (y.dimensions().to_vec(), y.values().len()) }));
    let (od, on) = match out { Ok(x) => x, Err(_) => { *stats.entry(format!("{} FWD_PANIC", name)).or_default() += 1; return; } };
    let seed: Vec<f64> = (0..on).map(|i| 1.0 + (i as f64)*0.5).collect(); let exp = num_vjp(&f, &xv, &seed);
    let got = catch_unwind(AssertUnwindSafe(|| { let x = Array::from((dims.clone(), xv.clone())).tracked(); let y = op(&x); y.backward(Some(Array::from((od.clone(), seed.clone())))); let g = x.gradient().clone().unwrap(); (g.dimensions().to_vec(), g.values().to_vec()) }));
    let k = match got { Err(_) => "BWD_PANIC", Ok((d,v)) => if d != dims {"WRONGDIM"} else if close(&v,&exp) {"ok"} else {"WRONGVAL"} };
    let k = format!("{} {}", name, k); *stats.entry(k.clone()).or_default() += 1; let e = ex.entry(k).or_default(); if e.len()<8 { e.push(format!("{:?}", dims)); }
}
fn main() {
    std::panic::set_hook(Box::new(|_| {}));
    let mut stats = BTreeMap::new(); let mut ex = BTreeMap::new();
    for d in shapes(4,3) {
        for e in [2.0, 3.0, 0.5, -1.5, 1.0, 0.0] { unary(&format!("powf{}", e), d.clone(), &move |x| x.powf(e), &mut stats, &mut ex); }
        unary("softmax", d.clone(), &|x| x.softmax(), &mut stats, &mut ex);
        for k in 0..=d.len() { let kk=k; unary(&format!("sum{}of{}", k, d.len()), d.clone(), &move |x| x.sum(kk), &mut stats, &mut ex);
            // forward value check of sum
            let n: usize = d.iter().product(); let xv: Vec<f64> = (0..n).map(|i| (i+1) as f64).collect(); let y = Array::from((d.clone(), xv.clone())).sum(k);
            let lead: Vec<usize> = d[..d.len()-k].to_vec(); let g: usize = d[d.len()-k..].iter().product(); let exp: Vec<f64> = (0..lead.iter().product::<usize>()).map(|l| xv[l*g..(l+1)*g].iter().sum()).collect();
            let mut ed = lead.clone(); if k>0 { ed.push(1); }
            let ok = if k==0 { y.dimensions()==&d[..] && y.values()==&xv[..] } else { y.dimensions()==&ed[..] && y.values()==&exp[..] };
            *stats.entry(format!("sumfwd {}", if ok {"ok"} else {"WRONG"})).or_default() += 1;
        }
    }
    for (k,v) in &stats { if !k.ends_with(" ok") { println!("{} {} {:?}", k, v, ex.get(k)); } }
    println!("total keys {} ok keys {}", stats.len(), stats.keys().filter(|k| k.ends_with(" ok")).count());
}
