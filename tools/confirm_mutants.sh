#!/bin/bash
# tools/confirm_mutants.sh <mutants-dir> <out.jsonl> [pattern]
# For every <mutants-dir>/<ID>-<k>/ : confirm in a scratch worktree that the patch applies, the existing suite
# passes with it, the demo fails with it and passes without it; then run every check (quick) against the
# patched scratch tree through a scratch copy of the harness. Nothing touches /repo or /verif.
set -u
MD="${1:?}"; OUT="${2:?}"; PAT="${3:-C??-?}"
WT="${CONFIRM_WT:-/tmp/wt-confirm}"; MH="${CONFIRM_MH:-/tmp/mh}"
export CARGO_NET_OFFLINE=true
rm -rf "$WT" "$MH"; git -C /repo worktree prune
git -C /repo worktree add -q --detach "$WT" HEAD || exit 2
mkdir -p "$MH"; rsync -a --exclude 'target*' --exclude 'build-*.log' /verif/harness "$MH/"; rsync -a /verif/bin /verif/regressions /verif/known_findings.json "$MH/"
sed -i "s|path = \"/repo\"|path = \"$WT\"|" "$MH/harness/checks/Cargo.toml"
: > "$OUT"
for d in "$MD"/$PAT; do
  [ -f "$d/patch.diff" ] || continue
  name=$(basename "$d"); prop=${name%-*}
  cd "$WT"; git checkout -q -- . ; rm -rf tests
  applies=false; suite=false; demo_fails=false; demo_passes=false
  if git apply "$d/patch.diff" 2>/dev/null; then applies=true; fi
  feat=""; [ "$prop" = C19 ] && feat="--features f32"
  if $applies; then
    if cargo test --offline >/tmp/mut-suite.log 2>&1 && { [ -z "$feat" ] || cargo test --offline $feat >>/tmp/mut-suite.log 2>&1; }; then suite=true; fi
    mkdir -p tests; cp "$d/demo.rs" tests/demo.rs
    if ! cargo test --offline $feat --test demo >/tmp/mut-demo1.log 2>&1; then demo_fails=true; fi
    git checkout -q -- src
    if cargo test --offline $feat --test demo >/tmp/mut-demo2.log 2>&1; then demo_passes=true; fi
    rm -rf tests
    git apply "$d/patch.diff"
  fi
  results=""
  if $applies; then
    ids="${CHECK_IDS:-$(seq -w 1 19)}"; [ -n "${OWN_ONLY:-}" ] && ids="${prop#C}"
    for id in $ids; do
      rm -f "$MH"/replays/*.json
      o=$(VERIF_REPO="$WT" "$MH/bin/check" "C$id" quick 2>&1); rc=$?
      sig=$(echo "$o" | grep -m1 'signature=' | sed 's/.*signature=//' | cut -c1-80)
      results="$results\"C$id\":{\"rc\":$rc,\"sig\":\"$sig\"},"
    done
  fi
  cd "$WT"; git reset -q --hard
  echo "{\"mutant\":\"$name\",\"property\":\"$prop\",\"applies\":$applies,\"suite_passes\":$suite,\"demo_fails_with\":$demo_fails,\"demo_passes_without\":$demo_passes,\"checks\":{${results%,}}}" >> "$OUT"
  echo "$name done"
done
cd /; git -C /repo worktree remove --force "$WT"; rm -rf "$MH"
echo ALL-DONE
