#!/bin/bash
# tools/scratch_mutant.sh <patch.diff|none> <tier> <ID>...   run checks against a patched scratch worktree through a
# scratch copy of the harness (never touches /repo). Use `tools/scratch_mutant.sh clean` to remove the scratch dirs.
set -u
WT=/tmp/wt-scratch; MH=/tmp/mh-scratch
export CARGO_NET_OFFLINE=true
if [ "${1:-}" = clean ]; then git -C /repo worktree remove --force "$WT" 2>/dev/null; rm -rf "$WT" "$MH"; git -C /repo worktree prune; exit 0; fi
P="$1"; TIER="$2"; shift 2
[ -d "$WT" ] || git -C /repo worktree add -q --detach "$WT" HEAD || exit 2
mkdir -p "$MH"; rsync -a --delete --exclude 'target*' --exclude 'build-*.log' /verif/harness "$MH/"; rsync -a --delete /verif/bin /verif/regressions "$MH/"; cp /verif/known_findings.json "$MH/"
sed -i "s|path = \"/repo\"|path = \"$WT\"|" "$MH/harness/checks/Cargo.toml"
cd "$WT"; git reset -q --hard; git clean -fdq; git checkout -q --detach "$(git -C /repo rev-parse HEAD)"
# a change written against an older revision of /repo: apply it with a 3-way merge against HEAD, and if that fails too
# fall back to the revision named by SCRATCH_BASE (the tree it was written for)
if [ "$P" != none ]; then
  git apply "$P" 2>/dev/null || git apply --3way "$P" 2>/dev/null || {
    git checkout -q -- . ; git reset -q --hard
    if [ -n "${SCRATCH_BASE:-}" ]; then git checkout -q --detach "$SCRATCH_BASE" && git apply "$P" || { echo "patch does not apply"; exit 2; }
    else echo "patch does not apply"; exit 2; fi
  }
fi
for id in "$@"; do
  rm -f "$MH"/replays/*.json
  out=$(VERIF_REPO="$WT" "$MH/bin/check" "$id" "$TIER" 2>&1); rc=$?
  echo "$id rc=$rc :: $(echo "$out" | grep -E -m3 -A2 '^VIOLATION|INTERNAL|INCONCLUSIVE' | tr '\n' ' ' | cut -c1-${WIDTH:-500})"
done
cd "$WT"; git reset -q --hard
