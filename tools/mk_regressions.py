#!/usr/bin/env python3
"""Writes the regression replays for the defects D1..D14 (DESIGN.md section 9): the minimal failing
inputs of the pre-survey in the replay format of the checks. Each was confirmed to be reported as a
VIOLATION by `bin/replay` on the pinned tree before the corresponding fix: commit."""
import json, os
ROOT = os.path.dirname(os.path.dirname(os.path.abspath(__file__)))
def numel(d):
    n = 1
    for x in d: n *= x
    return n
def leaf(dims, tracked=False, start=1.0, step=1.0):
    return {"dims": dims, "vals": [start + step * i for i in range(numel(dims))], "tracked": tracked}
def seed(n): return [float(((i * 7 + 3) % 11) - 4) + (9.0 if (i * 7 + 3) % 11 == 4 else 0.0) for i in range(n)]
def write(prop, name, kind, case, defect, what):
    p = os.path.join(ROOT, "regressions", f"{prop}-{name}.json")
    json.dump({"property": prop, "kind": kind, "defect": defect, "what": what, "case": case}, open(p, "w"), indent=1)
MM = lambda ta, tb, c: {"Matmul": {"ta": ta, "tb": tb, "has_c": c}}
def fwd(op, leaves): return {"op": op, "leaves": leaves, "force_exact": None}
def grad(op, leaves, s, uses=1): return {"op": op, "leaves": leaves, "seed": s, "uses": uses}

# D1 sliced_op operand walk
write("C04", "D1-add-2x3-plus-2x2x3", "forward-op", fwd("Add", [leaf([2, 3]), leaf([2, 2, 3], start=256, step=256)]), "D1", "[2,3] + [2,2,3] returns wrong values silently")
write("C04", "D1-add-1x2x3-plus-2x2x3", "forward-op", fwd("Add", [leaf([1, 2, 3]), leaf([2, 2, 3], start=256, step=256)]), "D1", "[1,2,3] + [2,2,3] panics (index out of range)")
# D2 / D10 conv with batch > 1
write("C06", "D2-conv-batch2", "forward-op", fwd({"Conv": {"sr": 1, "sc": 1}}, [leaf([2, 1, 2, 2]), leaf([1, 1, 1, 1], start=64, step=64)]), "D2", "unroll_blocks writes every image of a batch to offset 0")
write("C06", "D10-conv-batch2-count2", "forward-op", fwd({"Conv": {"sr": 1, "sc": 1}}, [leaf([2, 1, 2, 2]), leaf([2, 1, 1, 1], start=64, step=64)]), "D10", "expand_conv transposes [batch*windows, count] as one matrix")
# D3 leading unit dimension target
write("C03", "D3-mul-1x3-tracked-times-2x3", "grad-op", grad("Mul", [leaf([1, 3], True), leaf([2, 3], False, -40, 3)], seed(6)), "D3", "reduction to a target with a leading unit dimension indexes out of range")
# D4 lower-rank target
write("C03", "D4-matmul-2x2x3-times-3x2", "grad-op", grad(MM(False, False, False), [leaf([2, 2, 3], False), leaf([3, 2], True, 100, 100)], seed(8)), "D4", "flatten_to sums the wrong axis for a lower-rank target")
write("C03", "D4-add-2x3-plus-2x2x3", "grad-op", grad("Add", [leaf([2, 3], True), leaf([2, 2, 3], False, -40, 3)], seed(12)), "D4", "flatten_to sums the wrong axis for a lower-rank target")
# D5 second contribution unreduced
write("C03", "D5-second-use-of-broadcast-operand", "grad-op", grad("Mul", [leaf([3], True), leaf([2, 3], True, -40, 3)], seed(6), uses=2), "D5", "second contribution to a broadcast operand is added unreduced")
# D6 powf
write("C02", "D6-powf-3", "grad-op", grad({"Powf": 3.0}, [leaf([3], True)], seed(3)), "D6", "powf derivative is 2x for every exponent")
# D7 sum(k>=2)
write("C02", "D7-sum2-2x3x4", "grad-op", grad({"Sum": 2}, [leaf([2, 3, 4], True)], [1.0, 2.0]), "D7", "sum(k>=2) backward spreads only the first adjoint element")
write("C02", "D7-sum2-2x3x4x5", "grad-op", grad({"Sum": 2}, [leaf([2, 3, 4, 5], True)], seed(6)), "D7", "sum(2) backward of a rank-4 array panics")
# D8 overlapping windows, D9 batch
write("C02", "D8-conv-overlap-image-gradient", "grad-op", grad({"Conv": {"sr": 1, "sc": 1}}, [leaf([1, 3, 3], True), leaf([1, 1, 2, 2], False, 64, 64)], seed(4)), "D8", "roll_blocks overwrites instead of accumulating where windows overlap")
write("C02", "D9-conv-batch-image-gradient", "grad-op", grad({"Conv": {"sr": 1, "sc": 1}}, [leaf([2, 1, 2, 2], True), leaf([1, 1, 1, 1], False, 64, 64)], seed(8)), "D9", "roll_blocks treats the batch dimension as part of one image")
# D11 additive term tracked
write("C02", "D11-matmul-only-c-tracked", "grad-op", grad(MM(False, False, True), [leaf([2, 2], False), leaf([2, 2], False, 100, 100), leaf([2], True, 0.5, 0.25)], seed(4)), "D11", "matmul ignores a tracked additive term: no gradient")
# D12 vectors of different length
write("C05", "D12-dot-3-4", "forward-op", fwd(MM(False, False, False), [leaf([3]), leaf([4], start=100, step=100)]), "D12", "[3].[4] is not refused")
# D13 one-sided leading broadcast
write("C05", "D13-matmul-1x2x3-times-2x3x2", "forward-op", fwd(MM(False, False, False), [leaf([1, 2, 3]), leaf([2, 3, 2], start=100, step=100)]), "D13", "leading dimensions are broadcast one-sidedly")
# D14 dot product backward
write("C02", "D14-dot-backward", "grad-op", grad(MM(False, False, False), [leaf([3], True), leaf([3], True, 100, 100)], [2.0]), "D14", "backward of the two-vector dot product panics")
# D15 division backward squares the divisor
write("C02", "D15-softmax-large-arguments", "grad-op", {"op": "Softmax", "leaves": [{"dims": [2, 2], "vals": [600.0, 600.0, 1.0, 2.0], "tracked": True}], "seed": None, "uses": 1}, "D15", "softmax gradient for a row [600, 600] with the omitted seed must vanish; the squared sum of exponentials overflowed in the division backward")
write("C02", "D15-div-large-divisor", "grad-op", {"op": "Div", "leaves": [{"dims": [2], "vals": [3e200, -5e180], "tracked": False}, {"dims": [2], "vals": [1e160, 2e155], "tracked": True}], "seed": [1e120, 1e130], "uses": 1}, "D15", "d(a/b)/db = -a/b^2 is representable although b^2 overflows")
print("written")
