#!/usr/bin/env python3
"""Regenerates the table of section 10 of DESIGN.md from seeded/*/meta.json."""
import json, glob, os, re
ROOT = os.path.dirname(os.path.dirname(os.path.abspath(__file__)))
rows = []
for f in sorted(glob.glob(os.path.join(ROOT, "seeded", "*", "meta.json"))):
    m = json.load(open(f))
    det = m["checks_run"]["detected_by"]
    own = m["breaks_property"]
    others = [k for k in det if k != own]
    rows.append(f"| {m['id']} | {m.get('summary','').replace('|','/')} | {'**yes**' if own in det else '**NO**'} (`{det.get(own,'')[:60]}`) | {' '.join(others) if others else '-'} |")
table = "| change | what it does | caught by its own property's quick check (signature) | also reported by |\n|---|---|---|---|\n" + "\n".join(rows)
n = len(rows); caught = sum(1 for r in rows if "**yes**" in r)
table += f"\n\n{caught} of {n} kept changes are caught by the quick tier of the check of the property they were written against."
p = os.path.join(ROOT, "DESIGN.md")
s = open(p).read()
s = re.sub(r"<!-- SEEDED-TABLE-BEGIN -->.*?<!-- SEEDED-TABLE-END -->", "<!-- SEEDED-TABLE-BEGIN -->\n" + table + "\n<!-- SEEDED-TABLE-END -->", s, flags=re.S)
open(p, "w").write(s)
print(n, "rows;", caught, "caught by own check")
