#!/bin/bash
# tools/silence.sh <tier> <seed>...   run every check on the current tree for several seeds; print anything that is not exit 0
TIER="$1"; shift
cd "$(dirname "$0")/.."
for s in "$@"; do
  for id in $(seq -w 1 19); do
    start=$(date +%s)
    out=$(VERIF_SEED=$s ./bin/check C$id $TIER 2>&1); rc=$?
    echo "seed=$s C$id rc=$rc $(( $(date +%s) - start ))s $(echo "$out" | tail -1 | cut -c1-150)"
    if [ $rc -ne 0 ]; then echo "$out" | grep -A3 -E "VIOLATION|INTERNAL|INCONCLUSIVE" | head -20; fi
  done
done
