#!/usr/bin/env python3
"""Regenerates /verif/MANIFEST.json from the table below (kept in one place so it stays valid)."""
import json, os, sys
ROOT = os.path.dirname(os.path.dirname(os.path.abspath(__file__)))

CHECKS = {
 # id: (technique, level text, level note, design ref)
 "C04": ("exhaustive small-scope enumeration + proptest sampling against a reference broadcasting model (differential oracle)",
         "Bounded generated-input search: all 14 400 ordered shape pairs of rank 1..4 / sizes 1..3 for add, sub, mul, div, axpy are enumerated (values bitwise against an index-arithmetic reference, refusal <=> panic), larger ranks and sizes are sampled with proptest. Exhaustive inside the stated scope, sampled beyond it; no proof.",
         "Trusted: the reference broadcasting model in harness/refmodel (naive unravel/ravel loops, unit-tested), catch_unwind as the observation of refusal. Data chosen so every element pairing is distinct and exact.",
         "DESIGN.md section 5, C04"),
}

CHECKS.update({
 "C02": ("exhaustive small-scope enumeration of single-operation programs + proptest sampling; oracle = forward-mode dual numbers through the reference definition (J^T seed)",
         "Bounded generated-input search over every operation x parameterisation x operand shapes (all shapes/pairs of rank<=3 quick, <=4 thorough, sizes 1..3; matmul/conv configuration grids) x tracked subsets with non-uniform seeds, plus sampled sizes, values, exponents and seeds. Exhaustive inside the stated grids; no proof.",
         "Trusted: reference operation definitions and dual-number arithmetic in harness/refmodel (unit-tested against finite differences and corgi's own test expectations). Exact data compared bitwise, otherwise magnitude-scaled tolerance 1e-9.",
         "DESIGN.md section 5, C02"),
 "C05": ("configuration-grid enumeration + proptest sampling against a triple-loop reference (differential oracle), refusal <=> panic",
         "Bounded generated-input search: (rows,inner,cols) x transpose flags x 7x7 leading-dimension patterns x additive-term shapes x rank-1 forms, admissible and inadmissible variants; exact integer data compared bitwise.",
         "Trusted: the reference matmul in harness/refmodel; catch_unwind as the observation of refusal. Two rank-1 operands with a transpose flag are outside the property's domain.",
         "DESIGN.md section 5, C05"),
 "C06": ("configuration-grid enumeration + proptest sampling against the six-loop sliding-window definition (differential oracle)",
         "Bounded generated-input search over batch shape, depth, image size, filter count/size and both strides (images <=4x4 quick, <=6x6 thorough enumerated; up to 9x9 sampled); exact data compared bitwise.",
         "Trusted: the reference convolution in harness/refmodel. Filters larger than the image and zero strides are outside the domain.",
         "DESIGN.md section 5, C06"),
 "C07": ("exhaustive small-scope enumeration + proptest sampling against reference definitions, plus validity predicates for softmax",
         "Bounded generated-input search: all shapes of rank 1..4 / sizes 1..3 with every k, every reshape target (and refused targets) and every point-wise function; larger shapes and random values sampled.",
         "Trusted: reference definitions in harness/refmodel (same std float functions evaluated in f64).",
         "DESIGN.md section 5, C07"),
})

CHECKS.update({
 "C01": ("proptest-generated programs (recipe -> typed history elaborator) + structured deep chains; oracle = global forward-mode dual numbers (no path counting)",
         "Bounded generated-input search over expression DAGs built from all public differentiable operations and custom operations (fan-out, diamonds, self-products, re-binding, data-dependent branches, clones/drops, broadcasting with sharing), up to 16/48 steps, and deep chains up to depth 64/256; every tracked leaf's gradient is compared with the dual-number derivative.",
         "Trusted: harness/refmodel (reference operations + dual numbers). Exact programs compared bitwise, others within a magnitude-scaled 1e-9 tolerance. Forward values are judged by C04-C07, not here.",
         "DESIGN.md section 5, C01"),
 "C03": ("exhaustive enumeration of broadcast pairs x use patterns x passes + proptest programs; oracle = reference adjoints summed over broadcast positions, shape assertion on every stored gradient",
         "Bounded generated-input search: every really-broadcast ordered shape pair (rank<=3 quick / <=4 thorough, sizes 1..3) x {add,mul,sub,div} x 5 use patterns x 1-2 passes x operand order; matmul configurations used twice; generated exact programs with several passes where all stored gradients (leaves and results) are checked.",
         "Trusted: harness/refmodel. Integer data, bitwise comparison.",
         "DESIGN.md section 5, C03"),
 "C12": ("metamorphic testing: proptest-generated base program vs a variant with generated clone / early-drop / re-bind / clone-root rewrites; bitwise equality of values and gradients",
         "Bounded generated-input search over programs x rewrite choices; both sides run on corgi, no reference values needed.",
         "Trusted: the rewrite preserves the program's meaning by construction (same operations, same order); comparison is bitwise.",
         "DESIGN.md section 5, C12"),
 "C13": ("exhaustive small-scope enumeration + proptest-generated parameter lists and multi-round histories against an exact per-parameter step oracle",
         "Bounded generated-input search: 3 parameters x 216 shape combinations x all 8x8 gradient patterns over two rounds, plus sampled lists of 0-9 parameters over 1-6 rounds through one optimizer instance; values compared bitwise with old - lr*g computed in the build's float type.",
         "Trusted: the two-operation reference step; gradients are deposited through gradient_mut.",
         "DESIGN.md section 5, C13"),
 "C16": ("exhaustive small-scope enumeration + proptest sampling against a row-major reference; refusal <=> panic",
         "Bounded generated-input search: all shapes of rank 1..4 / sizes 1..3 (quick) / 1..4 (thorough): five constructors, every index, the equality matrix (copies, clones, views, same values under other shapes, flags/graph/gradient variants), refused constructions.",
         "Trusted: unravel/ravel reference; bitwise comparison.",
         "DESIGN.md section 5, C16"),
 "C17": ("metamorphic testing: five fresh instances of a proptest-generated program (seeds s1, s2, alpha*s1+beta*s2, omitted, ones); relation checked on every stored gradient",
         "Bounded generated-input search over programs x seed pairs (random, one-hot, sparse, mirrored) x coefficients; linearity bitwise in the exact sublanguage, magnitude-scaled tolerance otherwise; omitted seed == ones bitwise.",
         "Trusted: nothing but corgi itself for expected values; the reference model supplies magnitudes for the tolerance only.",
         "DESIGN.md section 5, C17"),
})

NOT_YET = {}

def main():
    props = [json.loads(l)["id"] for l in open(os.path.join(ROOT, "properties.jsonl"))]
    checks = []
    for pid in props:
        if pid not in CHECKS: continue
        tech, text, note, ref = CHECKS[pid]
        checks.append({
            "property_id": pid,
            "quick_cmd": f"./bin/check {pid} quick",
            "thorough_cmd": f"./bin/check {pid} thorough",
            "evidence_file": f"/verif/evidence/{pid}.json",
            "replay_cmd_template": f"./bin/replay {pid} {{path}}",
            "engine": "corgi-verif",
            "level_claimed": {"category": "exploration", "text": text, "design_ref": ref},
            "level_note": note,
            "technique": tech,
        })
    na = [{"property_id": p, "reason": NOT_YET.get(p, "check not built yet in this session (work in progress; property-based testing applies, see DESIGN.md section 5)")} for p in props if p not in CHECKS]
    m = {
        "version": 1,
        "setup_cmd": "./bin/setup",
        "hooks": {
            "guard": "none (no hooks: every probe uses corgi's public API)",
            "enable": "not needed; checks build corgi from /repo as a path dependency",
            "baseline_off_cmd": "cd /repo && cargo test --workspace --no-fail-fast --offline",
            "source_commits": [],
            "add_only": True,
        },
        "engines": [{
            "name": "corgi-verif",
            "path": "/verif/harness",
            "serves_properties": [c["property_id"] for c in checks],
            "kind_free_text": "Rust binary: proptest TestRunner campaigns with fixed seeds + exhaustive small-scope enumerators, independent reference model (forward-mode dual numbers), replay files, evidence writer",
        }],
        "checks": checks,
        "notes": "All checks: ./bin/check <ID> <quick|thorough>; VERIF_SEED selects the campaign seeds. Exit 0 held, 1 violation (VIOLATION line + replay file), 2 inconclusive. See DESIGN.md.",
        "not_applicable": na,
    }
    json.dump(m, open(os.path.join(ROOT, "MANIFEST.json"), "w"), indent=1)
    print("MANIFEST.json:", len(checks), "checks,", len(na), "not claimed")

main()
