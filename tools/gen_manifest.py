#!/usr/bin/env python3
"""Regenerates /verif/MANIFEST.json from the table below (kept in one place so it stays valid)."""
import json, os, sys
ROOT = os.path.dirname(os.path.dirname(os.path.abspath(__file__)))

CHECKS = {
 # id: (technique, level text, level note, design ref)
 "C04": ("exhaustive small-scope enumeration + proptest sampling against a reference broadcasting model (differential oracle)",
         "Bounded generated-input search: all 14 400 ordered shape pairs of rank 1..4 / sizes 1..3 for add, sub, mul, div, axpy are enumerated (values bitwise against an index-arithmetic reference, refusal <=> panic), larger ranks and sizes are sampled with proptest. Exhaustive inside the stated scope, sampled beyond it; no proof.",
         "Trusted: the reference broadcasting model in harness/refmodel (naive unravel/ravel loops, unit-tested), catch_unwind as the observation of refusal. Data chosen so every element pairing is distinct and exact.",
         "DESIGN.md section 5, C04"),
}

NOT_YET = {}

def main():
    props = [json.loads(l)["id"] for l in open(os.path.join(ROOT, "properties.jsonl"))]
    checks = []
    for pid in props:
        if pid not in CHECKS: continue
        tech, text, note, ref = CHECKS[pid]
        checks.append({
            "property_id": pid,
            "quick_cmd": f"./bin/check {pid} quick",
            "thorough_cmd": f"./bin/check {pid} thorough",
            "evidence_file": f"/verif/evidence/{pid}.json",
            "replay_cmd_template": f"./bin/replay {pid} {{path}}",
            "engine": "corgi-verif",
            "level_claimed": {"category": "exploration", "text": text, "design_ref": ref},
            "level_note": note,
            "technique": tech,
        })
    na = [{"property_id": p, "reason": NOT_YET.get(p, "check not built yet in this session (work in progress; property-based testing applies, see DESIGN.md section 5)")} for p in props if p not in CHECKS]
    m = {
        "version": 1,
        "setup_cmd": "./bin/setup",
        "hooks": {
            "guard": "none (no hooks: every probe uses corgi's public API)",
            "enable": "not needed; checks build corgi from /repo as a path dependency",
            "baseline_off_cmd": "cd /repo && cargo test --workspace --no-fail-fast --offline",
            "source_commits": [],
            "add_only": True,
        },
        "engines": [{
            "name": "corgi-verif",
            "path": "/verif/harness",
            "serves_properties": [c["property_id"] for c in checks],
            "kind_free_text": "Rust binary: proptest TestRunner campaigns with fixed seeds + exhaustive small-scope enumerators, independent reference model (forward-mode dual numbers), replay files, evidence writer",
        }],
        "checks": checks,
        "notes": "All checks: ./bin/check <ID> <quick|thorough>; VERIF_SEED selects the campaign seeds. Exit 0 held, 1 violation (VIOLATION line + replay file), 2 inconclusive. See DESIGN.md.",
        "not_applicable": na,
    }
    json.dump(m, open(os.path.join(ROOT, "MANIFEST.json"), "w"), indent=1)
    print("MANIFEST.json:", len(checks), "checks,", len(na), "not claimed")

main()
