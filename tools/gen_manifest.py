#!/usr/bin/env python3
"""Regenerates /verif/MANIFEST.json from the table below (kept in one place so it stays valid)."""
import json, os, sys
ROOT = os.path.dirname(os.path.dirname(os.path.abspath(__file__)))

CHECKS = {
 # id: (technique, level text, level note, design ref)
 "C04": ("exhaustive small-scope enumeration + proptest sampling against a reference broadcasting model (differential oracle)",
         "Bounded generated-input search: all 14 400 ordered shape pairs of rank 1..4 / sizes 1..3 for add, sub, mul, div, axpy are enumerated (values bitwise against an index-arithmetic reference, refusal <=> panic), larger ranks and sizes are sampled with proptest. Exhaustive inside the stated scope, sampled beyond it; no proof. Since round 10 also sequences of two or three calls that reuse ONE array, its clones or reshaped views of its buffer (stale per-object / per-buffer / per-thread memo tables), each result judged against the reference. Single add / sub / mul / div results are compared bitwise on all data in the double-precision build (one correctly rounded scalar operation per element).",
         "Trusted: the reference broadcasting model in harness/refmodel (naive unravel/ravel loops, unit-tested), catch_unwind as the observation of refusal. Data chosen so every element pairing is distinct and exact.",
         "DESIGN.md section 5, C04"),
}

CHECKS.update({
 "C02": ("exhaustive small-scope enumeration of single-operation programs + proptest sampling; oracle = forward-mode dual numbers through the reference definition (J^T seed)",
         "Bounded generated-input search over every operation x parameterisation x operand shapes (all shapes/pairs of rank<=3 quick, <=4 thorough, sizes 1..3; matmul/conv configuration grids) x tracked subsets with non-uniform seeds, plus sampled sizes, values, exponents and seeds. Exhaustive inside the stated grids; no proof.",
         "Trusted: reference operation definitions and dual-number arithmetic in harness/refmodel (unit-tested against finite differences and corgi's own test expectations). Exact data compared bitwise, otherwise magnitude-scaled tolerance 1e-9.",
         "DESIGN.md section 5, C02"),
 "C05": ("configuration-grid enumeration + proptest sampling against a triple-loop reference (differential oracle), refusal <=> panic",
         "Bounded generated-input search: (rows,inner,cols) x transpose flags x 7x7 leading-dimension patterns x additive-term shapes x rank-1 forms, admissible and inadmissible variants; exact integer data compared bitwise. Since round 10 also sequences of two or three calls that reuse ONE array, its clones or reshaped views of its buffer (stale per-object / per-buffer / per-thread memo tables), each result judged against the reference.",
         "Trusted: the reference matmul in harness/refmodel; catch_unwind as the observation of refusal. Two rank-1 operands with a transpose flag are outside the property's domain.",
         "DESIGN.md section 5, C05"),
 "C06": ("configuration-grid enumeration + proptest sampling against the six-loop sliding-window definition (differential oracle)",
         "Bounded generated-input search over batch shape, depth, image size, filter count/size and both strides (images <=4x4 quick, <=6x6 thorough enumerated; up to 9x9 sampled); exact data compared bitwise. Since round 10 also sequences of two or three calls that reuse ONE array, its clones or reshaped views of its buffer (stale per-object / per-buffer / per-thread memo tables), each result judged against the reference.",
         "Trusted: the reference convolution in harness/refmodel. Filters larger than the image and zero strides are outside the domain.",
         "DESIGN.md section 5, C06"),
 "C07": ("exhaustive small-scope enumeration + proptest sampling against reference definitions, plus validity predicates for softmax",
         "Bounded generated-input search: all shapes of rank 1..4 / sizes 1..3 with every k, every reshape target (and refused targets) and every point-wise function; larger shapes and random values sampled. Since round 10 also sequences of two or three calls that reuse ONE array, its clones or reshaped views of its buffer (stale per-object / per-buffer / per-thread memo tables), each result judged against the reference. Single-rounding operations (negation, scaling, reciprocal, relu) are compared bitwise in the double-precision build.",
         "Trusted: reference definitions in harness/refmodel (same std float functions evaluated in f64).",
         "DESIGN.md section 5, C07"),
})

CHECKS.update({
 "C01": ("proptest-generated programs (recipe -> typed history elaborator) + structured deep chains; oracle = global forward-mode dual numbers (no path counting)",
         "Bounded generated-input search over expression DAGs built from all public differentiable operations and custom operations (fan-out, diamonds, self-products, re-binding, data-dependent branches, clones/drops, broadcasting with sharing), up to 16/48 steps, and deep chains up to depth 64/256; every tracked leaf's gradient is compared with the dual-number derivative.",
         "Trusted: harness/refmodel (reference operations + dual numbers). Exact programs compared bitwise, others within a magnitude-scaled 1e-9 tolerance. Forward values are judged by C04-C07, not here.",
         "DESIGN.md section 5, C01"),
 "C03": ("exhaustive enumeration of broadcast pairs x use patterns x passes + proptest programs; oracle = reference adjoints summed over broadcast positions, shape assertion on every stored gradient",
         "Bounded generated-input search: every really-broadcast ordered shape pair (rank<=3 quick / <=4 thorough, sizes 1..3) x {add,mul,sub,div} x 5 use patterns x 1-2 passes x operand order; matmul configurations used twice; generated exact programs with several passes where all stored gradients (leaves and results) are checked.",
         "Trusted: harness/refmodel. Integer data, bitwise comparison.",
         "DESIGN.md section 5, C03"),
 "C12": ("metamorphic testing: proptest-generated base program vs a variant with generated clone / early-drop / re-bind / clone-root rewrites; bitwise equality of values and gradients",
         "Bounded generated-input search over programs x rewrite choices; both sides run on corgi, no reference values needed.",
         "Trusted: the rewrite preserves the program's meaning by construction (same operations, same order); comparison is bitwise.",
         "DESIGN.md section 5, C12"),
 "C13": ("exhaustive small-scope enumeration + proptest-generated parameter lists and multi-round histories against an exact per-parameter step oracle",
         "Bounded generated-input search: 3 parameters x 216 shape combinations x all 8x8 gradient patterns over two rounds, plus sampled lists of 0-9 parameters over 1-6 rounds through one optimizer instance; values compared bitwise with old - lr*g computed in the build's float type.",
         "Trusted: the two-operation reference step; gradients are deposited through gradient_mut.",
         "DESIGN.md section 5, C13"),
 "C16": ("exhaustive small-scope enumeration + proptest sampling against a row-major reference; refusal <=> panic",
         "Bounded generated-input search: all shapes of rank 1..4 / sizes 1..3 (quick) / 1..4 (thorough): five constructors, every index, the equality matrix (copies, clones, views, same values under other shapes, flags/graph/gradient variants), refused constructions.",
         "Trusted: unravel/ravel reference; bitwise comparison.",
         "DESIGN.md section 5, C16"),
 "C17": ("metamorphic testing: five fresh instances of a proptest-generated program (seeds s1, s2, alpha*s1+beta*s2, omitted, ones); relation checked on every stored gradient",
         "Bounded generated-input search over programs x seed pairs (random, one-hot, sparse, mirrored) x coefficients; linearity bitwise in the exact sublanguage, magnitude-scaled tolerance otherwise; omitted seed == ones bitwise. Since round 10 the omitted-seed relation is also checked on a root that already holds a gradient (after a seeded pass and after two omitted-seed passes from the same root).",
         "Trusted: nothing but corgi itself for expected values; the reference model supplies magnitudes for the tolerance only.",
         "DESIGN.md section 5, C17"),
})

CHECKS.update({
 "C08": ("stateful property-based testing: proptest-generated histories (operations, passes, gradient reads/clears, optimizer updates, clones, re-binding, drops) with an immutability invariant checked after every step",
         "Bounded generated-input search over histories of up to 25 (quick) / 120 (thorough) steps; after every step the dimensions and value bits of every live handle are compared with the snapshot taken at its creation.",
         "Trusted: snapshots of corgi's own earlier observations; the reference model only types the histories. The source audit named in the property is outside this technique.",
         "DESIGN.md section 5, C08"),
 "C09": ("model-based stateful testing: per-handle flag model (copied on clone) vs corgi after every step of proptest-generated flag histories + exhaustive iff-rule enumeration over every operation and tracked assignment",
         "Bounded generated-input search: every built-in operation x every tracked/untracked operand assignment (iff rule, operands released when untracked); histories with tracked/untracked/start/stop on leaves, results and clones with repeated passes: flags equal the model after every step, no gradient where none may be stored.",
         "Trusted: the flag/reachability model in harness/refmodel/src/model.rs; start_tracking()'s return value as flag probe; Vec::from(array) as ownership probe.",
         "DESIGN.md section 5, C09"),
 "C10": ("metamorphic stateful testing: each pass of a proptest-generated multi-pass history is re-run alone on a fresh instance; accumulated gradients must equal the sum of single-pass gradients since the last clear",
         "Bounded generated-input search over histories with up to ~10 (quick) / ~35 (thorough) passes on overlapping graphs, clears, drops, clones, flag changes, plus residue probes at the end; checked after every step.",
         "Trusted: corgi's own single-pass results on fresh instances (the statement's own oracle); exact histories compared bitwise.",
         "DESIGN.md section 5, C10"),
 "C11": ("exhaustive enumeration of all small DAGs of logging custom operations + proptest programs mixing custom and built-in operations + escalating self-product chains; oracle = invocation log vs reference adjoints",
         "Bounded generated-input search: all DAGs with 1-2 leaves and <=4 (quick) / <=5 (thorough) custom nodes (both seed kinds), generated mixed programs, chains up to depth 64/256: exactly-once invocation, consumer-before-operand order, complete adjoint.",
         "Trusted: harness closures passed to Array::op (they log and compute deltas with plain slices); reference adjoints from dual numbers. Built-in derivative invocations are not observable (DESIGN.md section 11).",
         "DESIGN.md section 5, C11"),
 "C14": ("model-based testing of training histories: spy Layer wrappers snapshot parameters and gradients at every Model::update; per-iteration oracle = dual-number loss/gradient from the observed parameters",
         "Bounded generated-input search over layer stacks (dense, conv, conv-flatten-dense), activations, costs, learning rates, 1-5 (quick) / 1-20 (thorough) iterations with varying batch sizes, cancelling-gradient targets and inference-only forwards.",
         "Trusted: reference layers/costs + dual numbers in harness/refmodel; deterministic initializer; runs that leave the well-conditioned domain are truncated (counted).",
         "DESIGN.md section 5, C14"),
 "C15": ("enumeration + proptest sampling of layer stacks, inputs and cost arguments against reference formulas (differential oracle)",
         "Bounded generated-input search: all dense sizes 1..4 x activations x input forms, costs on all shapes of rank 1..4 / sizes 1..3, sampled stacks (dense, conv incl. rectangular/strided, conv-flatten-dense) with batches; layer outputs, Model::forward composition, Model::backward return value, parameter shapes.",
         "Trusted: reference formulas in harness/refmodel/src/ops.rs; parameters read back through Layer::parameters().",
         "DESIGN.md section 5, C15"),
 "C18": ("model-based stateful testing with ownership probes (Vec::from succeeds iff sole owner) inserted where the liveness model says all derived results are dropped; plus training loops probing retained batches",
         "Bounded generated-input search over histories with passes, stored/fetched gradients, updates, clones, re-binding, drops and probes, a final release phase probing every remaining array, and 144 training-loop configurations.",
         "Trusted: the liveness/buffer-sharing model in harness/refmodel/src/model.rs (clones and reshape views share a buffer; recorded operands keep arrays alive; fetched gradient buffers are not predicted).",
         "DESIGN.md section 5, C18"),
 "C19": ("the C01-C07 generators, enumerators and oracles re-run against corgi built with the f32 feature (second harness build); exact-mode data must match exactly, the rest within an f32-scaled tolerance",
         "Bounded generated-input search: ~660k cases (quick) over the case spaces of C01-C07 in the single-precision build, compared with the precision-independent f64 reference (shapes, tracking, acceptance exactly; values to rtol 4e-4 scaled by term magnitudes).",
         "Trusted: as C01-C07; f32 tolerance rtol 4e-4 / atol 1e-5.",
         "DESIGN.md section 5, C19"),
})

NOT_YET = {}

def main():
    props = [json.loads(l)["id"] for l in open(os.path.join(ROOT, "properties.jsonl"))]
    checks = []
    for pid in props:
        if pid not in CHECKS: continue
        tech, text, note, ref = CHECKS[pid]
        checks.append({
            "property_id": pid,
            "quick_cmd": f"./bin/check {pid} quick",
            "thorough_cmd": f"./bin/check {pid} thorough",
            "evidence_file": f"/verif/evidence/{pid}.json",
            "replay_cmd_template": f"./bin/replay {pid} {{path}}",
            "engine": "corgi-verif",
            "level_claimed": {"category": "exploration", "text": text, "design_ref": ref},
            "level_note": note,
            "technique": tech,
        })
    na = [{"property_id": p, "reason": NOT_YET.get(p, "check not built yet in this session (work in progress; property-based testing applies, see DESIGN.md section 5)")} for p in props if p not in CHECKS]
    m = {
        "version": 1,
        "setup_cmd": "./bin/setup",
        "hooks": {
            "guard": "none (no hooks: every probe uses corgi's public API)",
            "enable": "not needed; checks build corgi from /repo as a path dependency",
            "baseline_off_cmd": "cd /repo && cargo test --workspace --no-fail-fast --offline",
            "source_commits": [],
            "add_only": True,
        },
        "engines": [{
            "name": "corgi-verif",
            "path": "/verif/harness",
            "serves_properties": [c["property_id"] for c in checks],
            "kind_free_text": "Rust binary: proptest TestRunner campaigns with fixed seeds + exhaustive small-scope enumerators, independent reference model (forward-mode dual numbers), replay files, evidence writer",
        }],
        "checks": checks,
        "notes": "All checks: ./bin/check <ID> <quick|thorough>; VERIF_SEED selects the campaign seeds. Exit 0 held, 1 violation (VIOLATION line + replay file), 2 inconclusive (harness build failure, a case running longer than 600 s, or the run exceeding its wall-clock budget: 30 min quick, 6 h thorough, VERIF_TIME_LIMIT_S). Besides the scopes named per check, every program-based check also runs its generator with dimension sizes up to 130 and with operand / seed magnitudes spread over many binary orders of magnitude, and every single-operation check has wide-magnitude and more-than-65536-element campaigns (DESIGN.md section 10, round 4); the measured list of campaigns is in each evidence file. See DESIGN.md.",
        "not_applicable": na,
    }
    json.dump(m, open(os.path.join(ROOT, "MANIFEST.json"), "w"), indent=1)
    print("MANIFEST.json:", len(checks), "checks,", len(na), "not claimed")

main()
