#!/bin/bash
# tools/try_mutant.sh <patch.diff> <tier> <ID>...   apply a patch to /repo, run checks, always undo.
set -u
P="$1"; TIER="$2"; shift 2
cd /repo || exit 2
if ! git diff --quiet; then echo "repo dirty"; exit 2; fi
git apply "$P" || { echo "patch does not apply"; exit 2; }
trap 'git -C /repo checkout -- . ' EXIT
rm -f /verif/replays/*.json
for id in "$@"; do
  out=$(/verif/bin/check "$id" "$TIER" 2>&1); rc=$?
  echo "$id rc=$rc $(echo "$out" | grep -c '^VIOLATION') violations; $(echo "$out" | grep -m1 -A2 '^VIOLATION' | tr '\n' ' ' | cut -c1-420)"
done
