#!/usr/bin/env python3
"""tools/automut.py <worktree> <outdir> [max]
Classic first-order mutation of corgi's non-test source (arithmetic / relational / logical operator replacement,
constant replacement, negation removal). Keeps the mutants that still compile AND pass the existing test suite
(`cargo test --offline`): these are the changes the existing tests cannot see. Writes <outdir>/m<k>/patch.diff."""
import os, re, subprocess, sys, random
wt, out = sys.argv[1], sys.argv[2]
maxn = int(sys.argv[3]) if len(sys.argv) > 3 else 300
FILES = ["src/array/mod.rs", "src/array/arithmetic.rs", "src/array/linalg.rs", "src/array/image.rs", "src/array/nonlinearity.rs",
         "src/optimizer/gd.rs", "src/model.rs", "src/cost.rs", "src/layer/dense.rs", "src/layer/conv.rs", "src/activation.rs"]
RULES = [
    (r" \+ ", " - "), (r" - ", " + "), (r" \* ", " / "), (r" / ", " * "),
    (r" == ", " != "), (r" != ", " == "), (r" < ", " <= "), (r" > ", " >= "), (r" <= ", " < "), (r" >= ", " > "),
    (r" && ", " || "), (r" \|\| ", " && "),
    (r"\b0\.0\b", "1.0"), (r"\b1\.0\b", "0.0"), (r"\b2\.0\b", "3.0"), (r"\b1\b", "0"), (r"\b0\b", "1"), (r"\b2\b", "3"),
    (r"\btrue\b", "false"), (r"\bfalse\b", "true"), (r"!self\.", "self."), (r"!other\.", "other."),
    (r"\.rev\(\)", ""), (r"\+= ", "-= "), (r"-= ", "+= "), (r"\.skip\((\w+)\)", r".skip(\1 + 1)"), (r"\.take\((\w+)\)", r".take(\1 + 1)"),
    (r"saturating_sub\((\w+)\)", r"saturating_sub(\1 + 1)"), (r"\.max\(", ".min("), (r"\.min\(", ".max("),
]
cands = []
for f in FILES:
    lines = open(os.path.join(wt, f)).read().split("\n")
    end = next((i for i, l in enumerate(lines) if "#[cfg(test)]" in l and "cfg_attr" not in l), len(lines))
    for i in range(end):
        l = lines[i]
        st = l.strip()
        if st.startswith("//") or st.startswith("#[") or st.startswith("assert") or "error:" in l or st.startswith("use ") or "#[cfg(feature" in l:
            continue
        code = l.split("//")[0]
        for pat, rep in RULES:
            for m in re.finditer(pat, code):
                new = code[:m.start()] + re.sub(pat, rep, code[m.start():m.end()]) + code[m.end():] + l[len(code):]
                if new != l:
                    cands.append((f, i, l, new))
random.seed(12345)
random.shuffle(cands)
print("candidates:", len(cands), file=sys.stderr)
os.makedirs(out, exist_ok=True)
kept = killed = broken = 0
for (f, i, old, new) in cands:
    if kept >= maxn:
        break
    p = os.path.join(wt, f)
    lines = open(p).read().split("\n")
    assert lines[i] == old
    lines[i] = new
    open(p, "w").write("\n".join(lines))
    r = subprocess.run(["cargo", "test", "--offline", "-q"], cwd=wt, capture_output=True, text=True, timeout=600)
    if r.returncode == 0:
        d = os.path.join(out, "m%03d" % kept)
        os.makedirs(d, exist_ok=True)
        diff = subprocess.run(["git", "diff"], cwd=wt, capture_output=True, text=True).stdout
        open(os.path.join(d, "patch.diff"), "w").write(diff)
        open(os.path.join(d, "what.txt"), "w").write(f"{f}:{i+1}\n- {old.strip()}\n+ {new.strip()}\n")
        kept += 1
    elif "error" in r.stderr and "could not compile" in r.stderr:
        broken += 1
    else:
        killed += 1
    subprocess.run(["git", "checkout", "-q", "--", "."], cwd=wt)
    print(f"kept={kept} killed={killed} broken={broken}", file=sys.stderr, end="\r")
print(f"\nsurvivors of the existing suite: {kept}; killed by it: {killed}; do not compile: {broken}", file=sys.stderr)
