#!/bin/bash
# tools/checks_on_mutants.sh <mutants-dir> <out.jsonl> [pattern]
# Like confirm_mutants.sh but WITHOUT re-confirming the change (suite / demo): only runs every quick check against
# each patched scratch tree through a scratch copy of the CURRENT harness. Never touches /repo or /verif.
set -u
MD="${1:?}"; OUT="${2:?}"; PAT="${3:-C??-?}"
WT="${CONFIRM_WT:-/tmp/wt-checks}"; MH="${CONFIRM_MH:-/tmp/mh-checks}"
export CARGO_NET_OFFLINE=true
rm -rf "$WT" "$MH"; git -C /repo worktree prune
git -C /repo worktree add -q --detach "$WT" HEAD || exit 2
mkdir -p "$MH"; rsync -a --exclude 'target*' --exclude 'build-*.log' /verif/harness "$MH/"; rsync -a /verif/bin /verif/regressions /verif/known_findings.json "$MH/"
sed -i "s|path = \"/repo\"|path = \"$WT\"|" "$MH/harness/checks/Cargo.toml"
: > "$OUT"
for d in "$MD"/$PAT; do
  [ -f "$d/patch.diff" ] || continue
  name=$(basename "$d"); prop=${name%-*}
  cd "$WT"; git reset -q --hard; git checkout -q --detach "$(git -C /repo rev-parse HEAD)"
  # changes written against an older revision: 3-way merge against HEAD, else the revision named by MUTANT_BASE
  git apply "$d/patch.diff" 2>/dev/null || git apply --3way "$d/patch.diff" 2>/dev/null || { git reset -q --hard; [ -n "${MUTANT_BASE:-}" ] && git checkout -q --detach "$MUTANT_BASE" && git apply "$d/patch.diff" 2>/dev/null; } || { echo "{\"mutant\":\"$name\",\"property\":\"$prop\",\"applies\":false,\"checks\":{}}" >> "$OUT"; continue; }
  results=""
  ids="${CHECK_IDS:-$(seq -w 1 19)}"; [ -n "${OWN_ONLY:-}" ] && ids="${prop#C}"
  for id in $ids; do
    rm -f "$MH"/replays/*.json
    o=$(VERIF_REPO="$WT" "$MH/bin/check" "C$id" quick 2>&1); rc=$?
    sig=$(echo "$o" | grep -m1 'signature=' | sed 's/.*signature=//' | cut -c1-80)
    results="$results\"C$id\":{\"rc\":$rc,\"sig\":\"$sig\"},"
  done
  cd "$WT"; git reset -q --hard
  echo "{\"mutant\":\"$name\",\"property\":\"$prop\",\"applies\":true,\"checks\":{${results%,}}}" >> "$OUT"
  echo "$name done"
done
cd /; git -C /repo worktree remove --force "$WT"; rm -rf "$MH"
echo ALL-DONE
