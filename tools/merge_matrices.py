#!/usr/bin/env python3
"""tools/merge_matrices.py <out.jsonl> <validity.jsonl>... -- <matrix.jsonl>...
Merges confirmation results (validity) and detection matrices of several runs into one results file and one matrix
file for tools/import_seeded.py. Later matrices overlay earlier ones per (mutant, check); a matrix that holds only the
own-property column (OWN_ONLY runs of tools/checks_on_mutants.sh) overlays just that column and leaves a note."""
import json, sys
out = sys.argv[1]
args = sys.argv[2:]
i = args.index("--")
valid_files, matrix_files = args[:i], args[i + 1:]
valid = {}
for f in valid_files:
    for l in open(f):
        r = json.loads(l)
        if r["mutant"] == "C09-h" and not r["applies"]:
            continue
        valid[r["mutant"]] = r
checks, notes = {}, {}
for f in matrix_files:
    for l in open(f):
        r = json.loads(l)
        if not r.get("checks"):
            continue
        m = r["mutant"]
        own_only = set(r["checks"].keys()) == {r["property"]}
        if m in checks and own_only and len(checks[m]) > 1:
            notes[m] = "the column of the property's own check is from the final harness; the other columns are from an earlier run of all 19 checks (older harness)"
        checks.setdefault(m, {}).update(r["checks"])
        if own_only and len(checks[m]) == 1:
            notes[m] = "only the property's own check was run against this change"
with open(out + ".results", "w") as fr, open(out + ".matrix", "w") as fm:
    for m in sorted(valid):
        r = valid[m]
        r["checks"] = checks.get(m, r.get("checks", {}))
        fr.write(json.dumps(r) + "\n")
        fm.write(json.dumps({"mutant": m, "property": r["property"], "checks": r["checks"], "note": notes.get(m, "")}) + "\n")
print(len(valid), "changes;", sum(1 for m in valid if checks.get(m)), "with a matrix row")
