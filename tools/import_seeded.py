#!/usr/bin/env python3
"""tools/import_seeded.py <mutants-dir> <results.jsonl> [<summaries.json>]
Copies confirmed breaking changes into /verif/seeded/<id>/ with meta.json. Only changes for which all four
confirmations hold are kept (patch applies, existing suite passes with it, demo fails with it, demo passes without)."""
import json, os, shutil, sys
ROOT = os.path.dirname(os.path.dirname(os.path.abspath(__file__)))
md, results = sys.argv[1], sys.argv[2]
summ = json.load(open(sys.argv[3])) if len(sys.argv) > 3 else {}
# optional 4th argument: a detection matrix written by tools/checks_on_mutants.sh with a newer harness; its
# "checks" replace the ones recorded next to the confirmation
matrix = {}
notes = {}
if len(sys.argv) > 4 and os.path.exists(sys.argv[4]):
    for l in open(sys.argv[4]):
        r = json.loads(l)
        if r.get("checks"):
            matrix[r["mutant"]] = r["checks"]
            if r.get("note"):
                notes[r["mutant"]] = r["note"]
head = os.popen("git -C /repo rev-parse --short HEAD").read().strip()
vhead = os.popen(f"git -C {ROOT} rev-parse --short HEAD").read().strip()
kept = 0
for line in open(results):
    r = json.loads(line)
    name, prop = r["mutant"], r["property"]
    if name in matrix:
        r["checks"] = matrix[name]
        r["matrix_run"] = True
    ok = r["applies"] and r["suite_passes"] and r["demo_fails_with"] and r["demo_passes_without"]
    if not ok:
        print("NOT KEPT", name, {k: r[k] for k in ("applies", "suite_passes", "demo_fails_with", "demo_passes_without")})
        continue
    d = os.path.join(ROOT, "seeded", name)
    os.makedirs(d, exist_ok=True)
    for f in ("patch.diff", "demo.rs", "notes.md"):
        src = os.path.join(md, name, f)
        if os.path.exists(src):
            shutil.copy(src, os.path.join(d, f))
    detected = {k: v for k, v in r["checks"].items() if v["rc"] == 1}
    inconclusive = [k for k, v in r["checks"].items() if v["rc"] not in (0, 1)]
    meta = {
        "id": name,
        "breaks_property": prop,
        "summary": summ.get(name, ""),
        "needs_to_manifest": (summ.get(name, "") + " - the exact trigger conditions and the commands its author ran are in notes.md; demo.rs is a test that fails with the change and passes without it").strip(" -"),
        "written_by": "fresh sub-agent given only the property text and a scratch git worktree of /repo",
        "base_commit": head,
        "confirmed_by_me": {
            "patch_applies_on_base": r["applies"],
            "existing_suite_passes_with_change": r["suite_passes"],
            "demo_fails_with_change": r["demo_fails_with"],
            "demo_passes_without_change": r["demo_passes_without"],
            "how": "tools/confirm_mutants.sh in a scratch worktree (/tmp/wt-confirm): git apply; cargo test --offline"
                   + (" and cargo test --offline --features f32" if prop == "C19" else "")
                   + "; demo as tests/demo.rs with and without the change",
        },
        "checks_run": {
            "how": ("the quick check of the property the change was written against" if notes.get(name, "").startswith("only") else "all 19 quick checks")
                   + " through a scratch copy of the harness pointed at the patched scratch worktree (tools/"
                   + ("checks_on_mutants.sh" if r.get("matrix_run") else "confirm_mutants.sh") + "), VERIF_SEED=0; /repo itself is never patched by these runs",
            "harness_commit": vhead,
            "detected_by": {k: v["sig"] for k, v in sorted(detected.items())},
            "inconclusive_exit_2": inconclusive,
            "own_property_check_detects": prop in detected,
            "note": notes.get(name, ""),
        },
    }
    json.dump(meta, open(os.path.join(d, "meta.json"), "w"), indent=1)
    kept += 1
print("kept", kept)
