//! The reference model is validated before it is trusted: forward-mode tangents against central finite
//! differences of the reference's own forward function (independent of the dual-number rules), and against
//! numeric expectations taken from corgi's documentation / unit tests.

use refmodel::ir::*;
use refmodel::model::*;
use refmodel::ops;
use refmodel::tensor::*;
use refmodel::vals::*;

fn fd_check(op: &OpKind, leaves: &[(Vec<usize>, Vec<f64>)]) {
    let eval = |vals: &[Vec<f64>]| -> Vec<f64> {
        let mut m = RefState::new(0);
        let hs: Vec<usize> = leaves.iter().zip(vals).map(|((d, _), v)| m.new_leaf(d, v, false)).collect();
        m.eval(op, &hs).unwrap().values()
    };
    // tangents
    let mut m = RefState::new(1 << 12);
    let hs: Vec<usize> = leaves.iter().map(|(d, v)| m.new_leaf(d, v, true)).collect();
    let r = m.apply(op, &hs).unwrap();
    let out = m.node_of(r).t.clone();
    let base: Vec<Vec<f64>> = leaves.iter().map(|l| l.1.clone()).collect();
    for (li, h) in hs.iter().enumerate() {
        let d0 = m.node_of(*h).dir0.unwrap();
        for i in 0..leaves[li].1.len() {
            let eps = 1e-6;
            let mut plus = base.clone();
            plus[li][i] += eps;
            let mut minus = base.clone();
            minus[li][i] -= eps;
            let (fp, fm) = (eval(&plus), eval(&minus));
            for j in 0..out.numel() {
                let fd = (fp[j] - fm[j]) / (2.0 * eps);
                let dual = out.vals[j].dir(d0 + i);
                assert!((fd - dual).abs() <= 1e-5 * (1.0 + dual.abs()), "{:?}: d out[{}] / d leaf{}[{}]: finite difference {} vs dual {}", op, j, li, i, fd, dual);
            }
        }
    }
}

#[test]
fn duals_agree_with_finite_differences() {
    use OpKind::*;
    let l = |d: &[usize], kind: VKind, s: u64| (d.to_vec(), gen_vals(s, numel(d), kind));
    for op in [Add, Sub, Mul, Div, Axpy(-1.5)] {
        fd_check(&op, &[l(&[2, 1, 3], VKind::Pos, 1), l(&[2, 3], VKind::Pos, 2)]);
        fd_check(&op, &[l(&[3], VKind::Pos, 3), l(&[2, 2, 3], VKind::Pos, 4)]);
    }
    for op in [Neg, ScaleR(2.5), ScaleL(-0.5), Powf(3.0), Powf(-1.5), Powf(0.5), Powf(0.0), Ln, Exp, Recip, Sigmoid, Softmax, Sum(0), Sum(1), Sum(2), Sum(3), Reshape(vec![3, 4]), Reshape(vec![12])] {
        fd_check(&op, &[l(&[2, 2, 3], VKind::Pos, 5)]);
    }
    fd_check(&Relu, &[(vec![2, 2], vec![1.5, -0.5, 2.0, -3.0])]);
    for (ta, tb) in [(false, false), (true, false), (false, true), (true, true)] {
        let a = if ta { vec![2, 3, 2] } else { vec![2, 2, 3] };
        let b = if tb { vec![1, 4, 3] } else { vec![1, 3, 4] };
        fd_check(&Matmul { ta, tb, has_c: true }, &[l(&a, VKind::Small, 6), l(&b, VKind::Small, 7), l(&[1, 4], VKind::Small, 8)]);
    }
    fd_check(&Matmul { ta: false, tb: false, has_c: false }, &[l(&[3], VKind::Small, 9), l(&[3], VKind::Small, 10)]);
    fd_check(&Matmul { ta: false, tb: true, has_c: false }, &[l(&[2, 3], VKind::Small, 9), l(&[3], VKind::Small, 10)]);
    fd_check(&Conv { sr: 1, sc: 2 }, &[l(&[2, 2, 3, 4], VKind::Small, 11), l(&[2, 2, 2, 2], VKind::Small, 12)]);
    fd_check(&Conv { sr: 2, sc: 1 }, &[l(&[1, 3, 3], VKind::Small, 13), l(&[1, 1, 2, 2], VKind::Small, 14)]);
    fd_check(&CFused3, &[l(&[2, 2], VKind::Small, 1), l(&[2, 2], VKind::Small, 2), l(&[2, 2], VKind::Small, 3)]);
}

/// the README / module documentation example: c = 195300, dc/db = 97650, dc/da = 232420
#[test]
fn readme_dynamic_graph_example() {
    let mut m = RefState::new(64);
    let a = m.new_leaf(&[1], &[5.0], true);
    let b = m.new_leaf(&[1], &[2.0], true);
    let c = m.new_leaf(&[1], &[0.0], true);
    for _ in 0..10 {
        let t = m.apply(&OpKind::Mul, &[a, b]).unwrap();
        m.rebind(c, &OpKind::Add, &[c, t]).unwrap();
        if m.node_of(c).t.vals[0].v > 50.0 {
            m.rebind(c, &OpKind::Mul, &[c, a]).unwrap();
        }
    }
    assert_eq!(m.node_of(c).t.vals[0].v, 195300.0);
    m.backward(c, None);
    let g = |h: usize| match &m.node_of(h).grad {
        GradSlot::Known { v, .. } => v.clone(),
        other => panic!("{:?}", other),
    };
    assert_eq!(g(c), vec![1.0]);
    assert_eq!(g(b), vec![97650.0]);
    assert_eq!(g(a), vec![232420.0]);
}

/// expectations of corgi's own unit tests (values copied from src/array/*.rs tests)
#[test]
fn corgi_unit_test_expectations() {
    // test_matmul: [[1,2,3],[4,5,6]] x [[7,8],[9,10],[11,12]] = [[58,64],[139,154]]
    let a = T::from_f64(&[2, 3], &[1., 2., 3., 4., 5., 6.]);
    let b = T::from_f64(&[3, 2], &[7., 8., 9., 10., 11., 12.]);
    assert_eq!(ops::matmul(&a, false, &b, false, None).unwrap().values(), vec![58., 64., 139., 154.]);
    // sum over the last dimension keeps a unit dimension
    let s = ops::sum(&a, 1).unwrap();
    assert_eq!((s.dims.clone(), s.values()), (vec![2, 1], vec![6., 15.]));
    assert_eq!(ops::sum(&a, 2).unwrap().dims, vec![1]);
    // broadcasting [3] against [2,3]
    let v = T::from_f64(&[3], &[10., 20., 30.]);
    assert_eq!(ops::mul(&a, &v).unwrap().values(), vec![10., 40., 90., 40., 100., 180.]);
    assert!(ops::add(&a, &T::from_f64(&[2], &[1., 2.])).is_err());
    // 3x3 image, 2x2 filter of ones, stride 1: window sums
    let img = T::from_f64(&[1, 3, 3], &[1., 2., 3., 4., 5., 6., 7., 8., 9.]);
    let f = T::from_f64(&[1, 1, 2, 2], &[1., 1., 1., 1.]);
    let c = ops::conv(&img, &f, 1, 1).unwrap();
    assert_eq!((c.dims.clone(), c.values()), (vec![1, 2, 2], vec![12., 16., 24., 28.]));
    // softmax rows sum to one
    let sm = ops::softmax(&T::from_f64(&[2, 2], &[0., 1., 2., 2.]));
    assert!((sm.vals[0].v + sm.vals[1].v - 1.0).abs() < 1e-15 && (sm.vals[2].v - 0.5).abs() < 1e-15);
}

#[test]
fn stop_gradient_and_fanout() {
    // y = x*x + x with x tracked: 2x+1; with the second operand of the product untracked: x+1
    let mut m = RefState::new(64);
    let x = m.new_leaf(&[2], &[3.0, -2.0], true);
    let xu = m.clone_handle(x);
    m.flag(xu, FlagOp::Stop);
    let p = m.apply(&OpKind::Mul, &[x, xu]).unwrap();
    let y = m.apply(&OpKind::Add, &[p, x]).unwrap();
    m.backward(y, None);
    match &m.node_of(x).grad {
        GradSlot::Known { v, .. } => assert_eq!(v, &vec![4.0, -1.0]),
        o => panic!("{:?}", o),
    }
}
