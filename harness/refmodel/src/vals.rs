//! Deterministic value streams (pure functions of a seed), and data layouts that make
//! wrong-element reads visible.

pub fn mix(mut z: u64) -> u64 {
    z = z.wrapping_add(0x9E3779B97F4A7C15);
    z = (z ^ (z >> 30)).wrapping_mul(0xBF58476D1CE4E5B9);
    z = (z ^ (z >> 27)).wrapping_mul(0x94D049BB133111EB);
    z ^ (z >> 31)
}

#[derive(Clone, Copy, Debug, PartialEq)]
pub enum VKind {
    /// integers in [-3, 3]
    Int,
    /// integers in [1, 4]
    PosInt,
    /// multiples of 1/8 in [0.25, 4]
    Pos,
    /// +- multiples of 1/8 with magnitude in [0.25, 4]
    Signed,
    /// multiples of 1/8 in [-3, 3]
    Small,
}

pub fn gen_vals(seed: u64, n: usize, kind: VKind) -> Vec<f64> {
    let mut z = mix(seed ^ 0xA5A5_5A5A);
    (0..n)
        .map(|_| {
            z = mix(z);
            let r = z >> 11;
            match kind {
                VKind::Int => (r % 7) as f64 - 3.0,
                VKind::PosInt => (r % 4) as f64 + 1.0,
                VKind::Pos => 0.25 + (r % 31) as f64 * 0.125,
                VKind::Signed => (0.25 + (r % 31) as f64 * 0.125) * if (r >> 8) & 1 == 0 { 1.0 } else { -1.0 },
                VKind::Small => (r % 49) as f64 * 0.125 - 3.0,
            }
        })
        .collect()
}

/// 1, 2, 3, ...
pub fn iota(n: usize, start: f64, step: f64) -> Vec<f64> {
    (0..n).map(|i| start + step * i as f64).collect()
}
/// 1, 3, 5, ...
pub fn odds(n: usize) -> Vec<f64> {
    (0..n).map(|i| (2 * i + 1) as f64).collect()
}
/// distinct powers of two centred on 1 (exact divisors / multipliers)
pub fn pow2s(n: usize) -> Vec<f64> {
    (0..n).map(|i| 2f64.powi(i as i32 - (n as i32) / 2)).collect()
}
/// a non-uniform seed with distinct small integer entries
pub fn distinct_seed(n: usize) -> Vec<f64> {
    (0..n).map(|i| ((i * 7 + 3) % 11) as f64 - 4.0 + if (i * 7 + 3) % 11 == 4 { 9.0 } else { 0.0 }).collect()
}
