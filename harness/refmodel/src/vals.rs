//! Deterministic value streams (pure functions of a seed), and data layouts that make
//! wrong-element reads visible.

pub fn mix(mut z: u64) -> u64 {
    z = z.wrapping_add(0x9E3779B97F4A7C15);
    z = (z ^ (z >> 30)).wrapping_mul(0xBF58476D1CE4E5B9);
    z = (z ^ (z >> 27)).wrapping_mul(0x94D049BB133111EB);
    z ^ (z >> 31)
}

#[derive(Clone, Copy, Debug, PartialEq)]
pub enum VKind {
    /// integers in [-3, 3]
    Int,
    /// integers in [1, 4]
    PosInt,
    /// multiples of 1/8 in [0.25, 4]
    Pos,
    /// +- multiples of 1/8 with magnitude in [0.25, 4]
    Signed,
    /// multiples of 1/8 in [-3, 3]
    Small,
    /// arbitrary doubles (full mantissas, not dyadic fractions) in [-3, 3]
    Real,
    /// arbitrary doubles in [0.25, 4]
    PosReal,
}

pub fn gen_vals(seed: u64, n: usize, kind: VKind) -> Vec<f64> {
    let mut z = mix(seed ^ 0xA5A5_5A5A);
    (0..n)
        .map(|_| {
            z = mix(z);
            let r = z >> 11;
            match kind {
                VKind::Int => (r % 7) as f64 - 3.0,
                VKind::PosInt => (r % 4) as f64 + 1.0,
                VKind::Pos => 0.25 + (r % 31) as f64 * 0.125,
                VKind::Signed => (0.25 + (r % 31) as f64 * 0.125) * if (r >> 8) & 1 == 0 { 1.0 } else { -1.0 },
                VKind::Small => (r % 49) as f64 * 0.125 - 3.0,
                VKind::Real => (r as f64 / 9007199254740992.0) * 6.0 - 3.0,
                VKind::PosReal => 0.25 + (r as f64 / 9007199254740992.0) * 3.75,
            }
        })
        .collect()
}

/// every element multiplied by its own power of two 2^j, j in [-jitter, jitter] (magnitudes that differ widely
/// WITHIN one array; the mantissas are untouched)
pub fn spread(vals: &mut [f64], seed: u64, jitter: i32) {
    if jitter <= 0 {
        return;
    }
    let mut z = mix(seed ^ 0x5EED_CAFE);
    for v in vals.iter_mut() {
        z = mix(z);
        let j = (z >> 20) % (2 * jitter as u64 + 1);
        *v *= 2f64.powi(j as i32 - jitter);
    }
}

/// values of log-uniform magnitude: mantissa in [1, 2) with full precision, exponent uniform in [lo, hi], random sign
/// (`signed`), never zero
pub fn log_uniform(seed: u64, n: usize, lo: i32, hi: i32, signed: bool) -> Vec<f64> {
    let mut z = mix(seed ^ 0x10C0_FFEE);
    (0..n)
        .map(|_| {
            z = mix(z);
            let m = 1.0 + ((z >> 11) as f64 / 9007199254740992.0);
            z = mix(z);
            let e = lo + ((z >> 16) % (hi - lo + 1) as u64) as i32;
            let s = if signed && (z >> 7) & 1 == 1 { -1.0 } else { 1.0 };
            s * m * 2f64.powi(e)
        })
        .collect()
}

/// 1, 2, 3, ...
pub fn iota(n: usize, start: f64, step: f64) -> Vec<f64> {
    (0..n).map(|i| start + step * i as f64).collect()
}
/// 1, 3, 5, ...
pub fn odds(n: usize) -> Vec<f64> {
    (0..n).map(|i| (2 * i + 1) as f64).collect()
}
/// distinct powers of two centred on 1 (exact divisors / multipliers)
pub fn pow2s(n: usize) -> Vec<f64> {
    (0..n).map(|i| 2f64.powi(i as i32 - (n as i32) / 2)).collect()
}
/// a non-uniform seed with distinct small integer entries
pub fn distinct_seed(n: usize) -> Vec<f64> {
    (0..n).map(|i| ((i * 7 + 3) % 11) as f64 - 4.0 + if (i * 7 + 3) % 11 == 4 { 9.0 } else { 0.0 }).collect()
}

/// special value patterns for one operand (value-dependent shortcuts are a classic source of defects)
pub const N_PATTERNS: usize = 8;
pub fn pattern_vals(pat: usize, n: usize, salt: u64) -> Vec<f64> {
    match pat % N_PATTERNS {
        0 => vec![0.0; n],
        1 => vec![1.0; n],
        2 => vec![-2.5; n],
        // alternating, sums to exactly zero when n is even
        3 => (0..n).map(|i| if i % 2 == 0 { 1.5 } else { -1.5 }).collect(),
        // one-hot
        4 => (0..n).map(|i| if i as u64 == salt % n as u64 { 3.0 } else { 0.0 }).collect(),
        // mostly ordinary values with exact zeros in between
        5 => (0..n).map(|i| if (i as u64 + salt) % 3 == 0 { 0.0 } else { (i % 5) as f64 - 2.0 }).collect(),
        // zero-sum integers that are not alternating
        6 => {
            let mut v: Vec<f64> = (0..n).map(|i| ((i * 3 + 1) % 7) as f64 - 3.0).collect();
            let s: f64 = v.iter().sum();
            if let Some(l) = v.last_mut() {
                *l -= s;
            }
            v
        }
        // powers of two of both signs
        _ => (0..n).map(|i| 2f64.powi((i % 9) as i32 - 4) * if i % 2 == 0 { 1.0 } else { -1.0 }).collect(),
    }
}
/// sizes around the block lengths that blocked / unrolled loops typically use
pub const BOUNDARY_SIZES: [usize; 18] = [4, 5, 7, 8, 9, 15, 16, 17, 31, 32, 33, 63, 64, 65, 127, 128, 129, 130];
