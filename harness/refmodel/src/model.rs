//! Reference interpreter of histories: values with forward-mode tangents, per-handle flags,
//! expected gradient slots, liveness / buffer ownership. Independent of corgi.

use crate::ir::*;
use crate::ops::{self, RefErr, R};
use crate::tensor::*;

#[derive(Clone, Debug, PartialEq)]
pub enum GradSlot {
    None,
    /// expected values and their magnitude bounds
    Known { v: Vec<f64>, m: Vec<f64> },
    /// a gradient may or may not be present and its value is not predicted
    Unknown,
}

#[derive(Clone, Debug)]
pub struct Node {
    pub t: T,
    /// first of the fresh tangent directions of this node's elements (None: direction budget exhausted)
    pub dir0: Option<usize>,
    /// recorded operands: (node, tracked when used, keep-gradient flag of the operand handle when used)
    pub edges: Vec<(usize, bool, bool)>,
    pub op: Option<OpKind>,
    pub grad: GradSlot,
    /// nodes that share one value buffer (reshape views of untracked or tracked arrays) have the same id
    pub buffer: usize,
    /// all data on the path to this node is integer/dyadic and produced by exact operations
    pub exact: bool,
}

impl Node {
    pub fn has_graph(&self) -> bool {
        !self.edges.is_empty()
    }
}

#[derive(Clone, Debug, PartialEq)]
pub struct Handle {
    pub node: usize,
    pub tracked: bool,
    pub keep: bool,
}

/// What a backward pass is expected to do to one node.
#[derive(Clone, Debug)]
pub struct PassEffect {
    pub node: usize,
    /// expected contribution of this pass (None: not predictable)
    pub contrib: Option<(Vec<f64>, Vec<f64>)>,
    /// Some(true): a gradient must be stored; Some(false): must not be stored by this pass; None: either
    pub stored: Option<bool>,
}

#[derive(Clone, Debug)]
pub struct RefState {
    pub nodes: Vec<Node>,
    pub handles: Vec<Option<Handle>>,
    pub ndirs: usize,
    pub dir_budget: usize,
    next_buffer: usize,
    /// buffers of fetched gradients: a gradient slot (possibly of several arrays) may hold them too,
    /// so ownership of these buffers is not predicted
    pub grad_buffers: Vec<usize>,
    no_dirs: bool,
    /// tangent entries held by all nodes so far (memory guard, see `eval`)
    pub tangent_entries: usize,
}

/// exact mode: integers only (see `ir::is_dyadic`)
pub fn is_exact_value(v: f64) -> bool {
    v == v.trunc() && v.abs() < 1e15
}

impl RefState {
    pub fn new(dir_budget: usize) -> RefState {
        RefState { nodes: Vec::new(), handles: Vec::new(), ndirs: 0, dir_budget, next_buffer: 0, grad_buffers: vec![], no_dirs: false, tangent_entries: 0 }
    }
    pub fn handle(&self, h: usize) -> &Handle {
        self.handles[h].as_ref().expect("dead handle")
    }
    pub fn node_of(&self, h: usize) -> &Node {
        &self.nodes[self.handle(h).node]
    }
    pub fn live_handles(&self) -> Vec<usize> {
        (0..self.handles.len()).filter(|&h| self.handles[h].is_some()).collect()
    }
    /// a model that only evaluates forward values: no tangent directions are ever allocated
    pub fn forward_only() -> RefState {
        let mut s = RefState::new(0);
        s.no_dirs = true;
        s
    }
    fn alloc_dirs(&mut self, n: usize, force: bool) -> Option<usize> {
        if self.no_dirs {
            return None;
        }
        if force || self.ndirs + n <= self.dir_budget {
            let d = self.ndirs;
            self.ndirs += n;
            Some(d)
        } else {
            None
        }
    }
    fn push_node(&mut self, t: T, edges: Vec<(usize, bool, bool)>, op: Option<OpKind>, buffer: Option<usize>, exact: bool, force_dirs: bool) -> usize {
        let dir0 = self.alloc_dirs(t.numel(), force_dirs);
        let t = match dir0 {
            Some(d) => t.with_fresh_dirs(d),
            None => t,
        };
        let buffer = buffer.unwrap_or_else(|| {
            self.next_buffer += 1;
            self.next_buffer
        });
        self.tangent_entries += t.vals.iter().map(|v| v.d.len()).sum::<usize>();
        self.nodes.push(Node { t, dir0, edges, op, grad: GradSlot::None, buffer, exact });
        self.nodes.len() - 1
    }
    fn next_buffer_bump(&mut self, n: usize) {
        self.next_buffer += 1;
        self.nodes[n].buffer = self.next_buffer;
    }
    pub fn new_leaf(&mut self, dims: &[usize], vals: &[f64], tracked: bool) -> usize {
        let exact = vals.iter().all(|v| is_exact_value(*v));
        let n = self.push_node(T::from_f64(dims, vals), vec![], None, None, exact, true);
        self.handles.push(Some(Handle { node: n, tracked, keep: tracked }));
        self.handles.len() - 1
    }

    /// the operand as the operation sees it: tangent dropped when the handle is untracked
    fn operand(&self, h: usize) -> T {
        let hd = self.handle(h);
        if hd.tracked {
            self.nodes[hd.node].t.clone()
        } else {
            self.nodes[hd.node].t.detached()
        }
    }

    /// Evaluate an operation on handles without recording anything.
    pub fn eval(&self, op: &OpKind, args: &[usize]) -> R<T> {
        let t = self.eval_unbounded(op, args)?;
        // memory guard: a result whose elements each depend on thousands of leaf elements (softmax, matmul, sums over
        // large arrays) carries that many tangent entries per element; programs whose reference would need more than
        // ~100 MB are outside what this model evaluates (the caller discards them / does not generate them)
        let n: usize = t.vals.iter().map(|v| v.d.len()).sum();
        if n > 1_500_000 || self.tangent_entries + n > 4_000_000 {
            return Err(RefErr::OutOfDomain("the reference's tangents for this program exceed the memory budget".into()));
        }
        Ok(t)
    }

    fn eval_unbounded(&self, op: &OpKind, args: &[usize]) -> R<T> {
        use OpKind::*;
        if args.len() != op.arity() {
            return Err(RefErr::OutOfDomain("arity".into()));
        }
        let a: Vec<T> = args.iter().map(|&h| self.operand(h)).collect();
        let same = |x: &T, y: &T| -> R<()> {
            if x.dims == y.dims {
                Ok(())
            } else {
                Err(RefErr::OutOfDomain("custom operations take same-shape operands".into()))
            }
        };
        Ok(match op {
            Add => ops::add(&a[0], &a[1])?,
            Sub => ops::sub(&a[0], &a[1])?,
            Mul => ops::mul(&a[0], &a[1])?,
            Div => ops::div(&a[0], &a[1])?,
            Neg => ops::neg(&a[0]),
            ScaleR(k) | ScaleL(k) => ops::scale(&a[0], *k),
            Powf(e) => ops::powf(&a[0], *e),
            Ln => ops::ln(&a[0]),
            Exp => ops::exp(&a[0]),
            Recip => ops::recip(&a[0]),
            Sum(k) => ops::sum(&a[0], *k)?,
            Reshape(d) => ops::reshape(&a[0], d)?,
            Axpy(al) => ops::axpy(*al, &a[0], &a[1])?,
            Matmul { ta, tb, has_c } => ops::matmul(&a[0], *ta, &a[1], *tb, if *has_c { Some(&a[2]) } else { None })?,
            Conv { sr, sc } => ops::conv(&a[0], &a[1], *sr, *sc)?,
            Relu | ActRelu => ops::relu(&a[0]),
            Sigmoid | ActSigmoid => ops::sigmoid(&a[0]),
            Softmax | ActSoftmax => ops::softmax(&a[0]),
            CAdd => {
                same(&a[0], &a[1])?;
                ops::add(&a[0], &a[1])?
            }
            CMul => {
                same(&a[0], &a[1])?;
                ops::mul(&a[0], &a[1])?
            }
            Stack(_) => {
                if a.iter().any(|x| x.dims != a[0].dims) {
                    return Err(RefErr::Refuse("nested arrays of different shapes".into()));
                }
                let mut dims = vec![a.len()];
                dims.extend(a[0].dims.iter());
                T::new(dims, a.iter().flat_map(|x| x.vals.iter().map(|v| v.detached())).collect())
            }
            CScale(k) => ops::scale(&a[0], *k),
            CBAdd => ops::add(&a[0], &a[1])?,
            CBMul => ops::mul(&a[0], &a[1])?,
            CostMse => ops::mse(&a[0], &a[1])?,
            CostCe => ops::cross_entropy(&a[0], &a[1])?,
            CFused3 => {
                same(&a[0], &a[1])?;
                same(&a[0], &a[2])?;
                ops::add(&ops::mul(&a[0], &a[1])?, &a[2])?
            }
        })
    }

    /// The handle an operation would produce (node recorded), not yet placed in a slot.
    fn apply_detached(&mut self, op: &OpKind, args: &[usize]) -> R<Handle> {
        if let OpKind::Sum(0) = op {
            // sum(0) is the identity and returns a handle of the same array
            return Ok(self.handle(args[0]).clone());
        }
        let t = self.eval(op, args)?;
        let any_tracked = !op.never_tracked() && args.iter().any(|&h| self.handle(h).tracked);
        let exact = op.is_exact() && args.iter().all(|&h| self.node_of(h).exact) && t.vals.iter().all(|x| is_exact_value(x.v));
        let edges: Vec<(usize, bool, bool)> = if any_tracked {
            args.iter()
                .map(|&h| {
                    let hd = self.handle(h);
                    (hd.node, hd.tracked, hd.keep)
                })
                .collect()
        } else {
            vec![]
        };
        // a reshape shares its operand's buffer
        let buffer = if let OpKind::Reshape(_) = op { Some(self.node_of(args[0]).buffer) } else { None };
        let n = self.push_node(t, edges, Some(op.clone()), buffer, exact, false);
        Ok(Handle { node: n, tracked: any_tracked, keep: any_tracked })
    }

    pub fn apply(&mut self, op: &OpKind, args: &[usize]) -> R<usize> {
        let h = self.apply_detached(op, args)?;
        if op.consumes_operand() {
            for a in args {
                self.handles[*a] = None;
            }
        }
        self.handles.push(Some(h));
        Ok(self.handles.len() - 1)
    }

    pub fn clone_handle(&mut self, h: usize) -> usize {
        let c = self.handle(h).clone();
        self.handles.push(Some(c));
        self.handles.len() - 1
    }
    pub fn drop_handle(&mut self, h: usize) {
        assert!(self.handles[h].is_some());
        self.handles[h] = None;
    }
    pub fn rebind(&mut self, target: usize, op: &OpKind, args: &[usize]) -> R<()> {
        let h = self.apply_detached(op, args)?;
        self.handles[target] = Some(h);
        Ok(())
    }
    pub fn flag(&mut self, h: usize, how: FlagOp) {
        let hd = self.handles[h].as_mut().expect("dead handle");
        match how {
            FlagOp::Tracked => {
                hd.tracked = true;
                hd.keep = true;
            }
            FlagOp::Untracked => {
                hd.tracked = false;
                hd.keep = false;
            }
            FlagOp::Start => hd.tracked = true,
            FlagOp::Stop => hd.tracked = false,
        }
    }

    /// nodes reachable from `root` through edges that were tracked when recorded (root included),
    /// in discovery order
    pub fn reach(&self, root: usize) -> Vec<usize> {
        let mut seen = vec![false; self.nodes.len()];
        let mut order = vec![];
        let mut stack = vec![root];
        seen[root] = true;
        while let Some(n) = stack.pop() {
            order.push(n);
            for &(c, tr, _) in &self.nodes[n].edges {
                if tr && !seen[c] {
                    seen[c] = true;
                    stack.push(c);
                }
            }
        }
        order
    }

    /// Expected effect of `handles[h].backward(seed)` on every node it touches; does not change state.
    pub fn pass_effects(&self, h: usize, seed: Option<&[f64]>) -> Vec<PassEffect> {
        let hd = self.handle(h);
        let root = hd.node;
        let rt = &self.nodes[root].t;
        let ones = vec![1.0; rt.numel()];
        let seed = seed.unwrap_or(&ones);
        assert_eq!(seed.len(), rt.numel());
        let reach = self.reach(root);
        // keep flags of the tracked incoming edges inside the differentiated graph
        let mut keep_true = vec![0usize; self.nodes.len()];
        let mut keep_false = vec![0usize; self.nodes.len()];
        for &n in &reach {
            for &(c, tr, kp) in &self.nodes[n].edges {
                if tr {
                    if kp {
                        keep_true[c] += 1
                    } else {
                        keep_false[c] += 1
                    }
                }
            }
        }
        let mut out = vec![];
        for &n in &reach {
            let node = &self.nodes[n];
            let contrib = if n == root {
                Some((seed.to_vec(), seed.iter().map(|x| x.abs()).collect()))
            } else {
                node.dir0.map(|d0| {
                let k = node.t.numel();
                let mut v = vec![0.0; k];
                let mut m = vec![0.0; k];
                for (j, s) in seed.iter().enumerate() {
                    if *s == 0.0 {
                        continue;
                    }
                    let r = &rt.vals[j];
                    // the entries of this node's directions d0 .. d0 + k (the tangent is sparse and sorted)
                    let from = r.d.partition_point(|e| (e.0 as usize) < d0);
                    for e in &r.d[from..] {
                        let i = e.0 as usize - d0;
                        if i >= k {
                            break;
                        }
                        v[i] += s * e.1;
                        m[i] += s.abs() * e.2;
                    }
                }
                (v, m)
            })
            };
            let stored = if n == root {
                Some(!node.has_graph() || hd.keep)
            } else if !node.has_graph() {
                Some(true)
            } else if keep_false[n] == 0 {
                Some(true)
            } else if keep_true[n] == 0 {
                Some(false)
            } else {
                None
            };
            out.push(PassEffect { node: n, contrib, stored });
        }
        out
    }

    /// Apply a backward pass to the expected gradient slots.
    pub fn backward(&mut self, h: usize, seed: Option<&[f64]>) -> Vec<PassEffect> {
        let eff = self.pass_effects(h, seed);
        for e in &eff {
            let slot = &mut self.nodes[e.node].grad;
            match (e.stored, &e.contrib) {
                (Some(false), _) => {}
                (Some(true), Some((v, m))) => match slot {
                    GradSlot::None => *slot = GradSlot::Known { v: v.clone(), m: m.clone() },
                    GradSlot::Known { v: ov, m: om } => {
                        for i in 0..v.len() {
                            ov[i] += v[i];
                            om[i] += m[i];
                        }
                    }
                    GradSlot::Unknown => {}
                },
                _ => *slot = GradSlot::Unknown,
            }
        }
        eff
    }

    /// `ReadGrad`: a handle on a copy of the stored gradient (plain, untracked), or an empty slot
    pub fn read_grad(&mut self, h: usize) -> Option<usize> {
        let g = self.node_of(h).grad.clone();
        let dims = self.node_of(h).t.dims.clone();
        match g {
            GradSlot::Known { v, m } => {
                let exact = v.iter().all(|x| is_exact_value(*x));
                let mut t = T::from_f64(&dims, &v);
                for (x, mm) in t.vals.iter_mut().zip(&m) {
                    x.vm = x.vm.max(*mm);
                }
                let n = self.push_node(t, vec![], None, None, exact, false);
                let b = self.nodes[n].buffer;
                self.grad_buffers.push(b);
                self.handles.push(Some(Handle { node: n, tracked: false, keep: false }));
                Some(self.handles.len() - 1)
            }
            _ => {
                self.handles.push(None);
                None
            }
        }
    }
    pub fn clear_grad(&mut self, h: usize) {
        let n = self.handle(h).node;
        self.nodes[n].grad = GradSlot::None;
    }

    /// `GradientDescent::update`: parameters holding a gradient become fresh tracked leaves
    /// `old - lr * g`; the others are untouched. Returns false when a gradient is unpredictable.
    pub fn update(&mut self, lr: f64, params: &[usize]) -> bool {
        for &p in params {
            if self.node_of(p).grad == GradSlot::Unknown {
                return false;
            }
        }
        for &p in params {
            let node = self.node_of(p).clone();
            if let GradSlot::Known { v: g, .. } = &node.grad {
                let vals: Vec<f64> = node.t.vals.iter().zip(g).map(|(x, g)| x.v - lr * g).collect();
                let old = self.handle(p).node;
                self.nodes[old].grad = GradSlot::None;
                let exact = vals.iter().all(|v| is_exact_value(*v)) && node.exact;
                let n = self.push_node(T::from_f64(&node.t.dims, &vals), vec![], None, None, exact, true);
                self.handles[p] = Some(Handle { node: n, tracked: true, keep: true });
            }
        }
        true
    }

    /// nodes kept alive by live handles (through recorded operands, tracked or not)
    pub fn alive_nodes(&self) -> Vec<bool> {
        let mut alive = vec![false; self.nodes.len()];
        let mut stack: Vec<usize> = self.handles.iter().flatten().map(|h| h.node).collect();
        while let Some(n) = stack.pop() {
            if alive[n] {
                continue;
            }
            alive[n] = true;
            for &(c, _, _) in &self.nodes[n].edges {
                stack.push(c);
            }
        }
        alive
    }

    /// Is handle `h` expected to be the sole owner of its value buffer? True iff it is the only live
    /// handle on a node with that buffer and no alive node records a node with that buffer as operand.
    pub fn sole_owner(&self, h: usize) -> bool {
        let buf = self.node_of(h).buffer;
        if self.grad_buffers.contains(&buf) {
            return false;
        }
        let holders = self.handles.iter().flatten().filter(|x| self.nodes[x.node].buffer == buf).count();
        if holders != 1 {
            return false;
        }
        let alive = self.alive_nodes();
        for (n, node) in self.nodes.iter().enumerate() {
            if alive[n] {
                for &(c, _, _) in &node.edges {
                    if self.nodes[c].buffer == buf {
                        return false;
                    }
                }
            }
        }
        true
    }

    /// Apply one step. `Err(Refuse)` means the reference says corgi must refuse (panic) here.
    pub fn step(&mut self, s: &Step) -> R<()> {
        match s {
            Step::Leaf { dims, vals, tracked } => {
                self.new_leaf(dims, vals, *tracked);
            }
            Step::Apply(a) => {
                self.apply(&a.op, &a.args)?;
            }
            Step::Clone { h } => {
                self.clone_handle(*h);
            }
            Step::Drop { h } => self.drop_handle(*h),
            Step::Rebind { target, spec } => self.rebind(*target, &spec.op, &spec.args)?,
            Step::IfGt { cond, elem, thr, target, then_, else_ } => {
                let v = self.node_of(*cond).t.vals[*elem].v;
                if v > *thr {
                    self.rebind(*target, &then_.op, &then_.args)?
                } else if let Some(e) = else_ {
                    self.rebind(*target, &e.op, &e.args)?
                }
            }
            Step::Flag { h, how } => self.flag(*h, *how),
            Step::Backward { h, seed } => {
                self.backward(*h, seed.as_deref());
            }
            Step::ReadGrad { h } => {
                self.read_grad(*h);
            }
            Step::ClearGrad { h, .. } => self.clear_grad(*h),
            Step::Update { lr, params } => {
                self.update(*lr, params);
            }
            Step::Copy { h } => {
                let node = self.node_of(*h).clone();
                let n = self.push_node(node.t.detached(), vec![], None, None, node.exact, false);
                self.handles.push(Some(Handle { node: n, tracked: false, keep: false }));
            }
            Step::RefusedOp { h } => {
                // refused: no effect (the handle must be alive)
                let _ = self.handle(*h);
            }
            Step::ProbeSole { h } => {
                // the array is rebuilt with a buffer of its own
                let n = self.handle(*h).node;
                self.next_buffer_bump(n);
            }
        }
        Ok(())
    }
}
