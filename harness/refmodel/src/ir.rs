//! Typed intermediate representation of cases: operations, history steps.
//! A case file (replay) is the JSON of these types; reference evaluation and the corgi executor
//! both interpret it, so a replay never depends on the generators.

use serde::{Deserialize, Serialize};

#[derive(Clone, Debug, PartialEq, Serialize, Deserialize)]
pub enum OpKind {
    Add,
    Sub,
    Mul,
    Div,
    Neg,
    /// `&a * k`
    ScaleR(f64),
    /// `k * &a`
    ScaleL(f64),
    Powf(f64),
    Ln,
    Exp,
    Recip,
    Sum(usize),
    Reshape(Vec<usize>),
    /// `Array::axpy(alpha, x, y)`
    Axpy(f64),
    /// operands: a, b and, if `has_c`, the additive term
    Matmul { ta: bool, tb: bool, has_c: bool },
    /// operands: image, filters
    Conv { sr: usize, sc: usize },
    Relu,
    Sigmoid,
    Softmax,
    /// the closures of `corgi::activation` (they take their argument by value: the operand handle is consumed)
    ActRelu,
    ActSigmoid,
    ActSoftmax,
    /// `Array::from(vec![a, b, ..])`: nested construction from n same-shaped arrays, which are moved into the
    /// call (the operand handles are consumed); the result is a plain array without a graph
    Stack(usize),
    /// custom operations through `Array::op` with harness closures (same-shape operands)
    CAdd,
    CMul,
    CScale(f64),
    /// a * b + c
    CFused3,
    /// custom operations that broadcast like the built-in ones; their derivative closures return deltas of the
    /// OUTPUT's shape and rely on the engine to sum them down to the operand's shape
    CBAdd,
    CBMul,
    /// the closures of `corgi::cost` called like an operation: operands (output, target)
    CostMse,
    CostCe,
}

impl OpKind {
    pub fn arity(&self) -> usize {
        use OpKind::*;
        match self {
            Add | Sub | Mul | Div | Axpy(_) | Conv { .. } | CAdd | CMul | CBAdd | CBMul | CostMse | CostCe => 2,
            Matmul { has_c, .. } => {
                if *has_c {
                    3
                } else {
                    2
                }
            }
            CFused3 => 3,
            Stack(n) => *n,
            _ => 1,
        }
    }
    pub fn name(&self) -> &'static str {
        use OpKind::*;
        match self {
            Add => "add",
            Sub => "sub",
            Mul => "mul",
            Div => "div",
            Neg => "neg",
            ScaleR(_) => "scale_r",
            ScaleL(_) => "scale_l",
            Powf(_) => "powf",
            Ln => "ln",
            Exp => "exp",
            Recip => "reciprocal",
            Sum(_) => "sum",
            Reshape(_) => "reshape",
            Axpy(_) => "axpy",
            Matmul { .. } => "matmul",
            Conv { .. } => "conv",
            Relu => "relu",
            Sigmoid => "sigmoid",
            Softmax => "softmax",
            ActRelu => "activation::relu",
            ActSigmoid => "activation::sigmoid",
            ActSoftmax => "activation::softmax",
            Stack(_) => "nested-construction",
            CAdd => "custom_add",
            CMul => "custom_mul",
            CScale(_) => "custom_scale",
            CFused3 => "custom_fused3",
            CBAdd => "custom_broadcast_add",
            CBMul => "custom_broadcast_mul",
            CostMse => "cost::mse",
            CostCe => "cost::cross_entropy",
        }
    }
    /// operations that are exact on small integer / dyadic data whatever the summation order
    pub fn is_exact(&self) -> bool {
        use OpKind::*;
        match self {
            Add | Sub | Mul | Neg | Sum(_) | Reshape(_) | Matmul { .. } | Conv { .. } | Relu | ActRelu | Stack(_) | CAdd | CMul | CFused3 | CBAdd | CBMul => true,
            ScaleR(k) | ScaleL(k) | Axpy(k) | CScale(k) => is_dyadic(*k),
            Powf(e) => *e == 1.0 || *e == 2.0 || *e == 3.0,
            _ => false,
        }
    }
    pub fn is_nonlinear(&self) -> bool {
        use OpKind::*;
        matches!(self, Mul | Div | Powf(_) | Ln | Exp | Recip | Matmul { .. } | Conv { .. } | Relu | Sigmoid | Softmax | ActRelu | ActSigmoid | ActSoftmax | CMul | CFused3 | CBMul | CostMse | CostCe)
    }
    /// operations that take their (single) operand by value
    pub fn consumes_operand(&self) -> bool {
        matches!(self, OpKind::ActRelu | OpKind::ActSigmoid | OpKind::ActSoftmax | OpKind::Stack(_))
    }
    /// operations whose result never carries a graph, whatever the operands' flags
    pub fn never_tracked(&self) -> bool {
        matches!(self, OpKind::Stack(_))
    }
    pub fn is_custom(&self) -> bool {
        use OpKind::*;
        matches!(self, CAdd | CMul | CScale(_) | CFused3 | CBAdd | CBMul)
    }
}

/// Exact mode means INTEGER data and integer coefficients only: then every value, every partial sum and every
/// tangent / adjoint is an integer, and sums are exact in any order while magnitudes stay below the mantissa
/// width. (Dyadic fractions are not enough: products of fractions need ever more fractional bits.)
pub fn is_dyadic(k: f64) -> bool {
    k == k.trunc() && k.abs() <= 65536.0
}

#[derive(Clone, Copy, Debug, PartialEq, Eq, Hash, Serialize, Deserialize)]
pub enum FlagOp {
    /// `x = x.tracked()`
    Tracked,
    /// `x = x.untracked()`
    Untracked,
    /// `x.start_tracking()`
    Start,
    /// `x.stop_tracking()`
    Stop,
}

#[derive(Clone, Debug, PartialEq, Serialize, Deserialize)]
pub struct ApplySpec {
    pub op: OpKind,
    pub args: Vec<usize>,
}

/// One step of a history. Handle ids are slot numbers: every `Leaf`, `Apply`, `Clone`, `ReadGrad`
/// step allocates the next slot (a `ReadGrad` slot stays empty when there is no gradient).
#[derive(Clone, Debug, PartialEq, Serialize, Deserialize)]
pub enum Step {
    Leaf { dims: Vec<usize>, vals: Vec<f64>, tracked: bool },
    Apply(ApplySpec),
    Clone { h: usize },
    Drop { h: usize },
    /// `target = op(args)` over an existing slot (the old array is dropped afterwards)
    Rebind { target: usize, spec: ApplySpec },
    /// `if cond[elem] > thr { target = then } else { target = else }`; both branches give the same shape
    IfGt { cond: usize, elem: usize, thr: f64, target: usize, then_: ApplySpec, else_: Option<ApplySpec> },
    Flag { h: usize, how: FlagOp },
    Backward { h: usize, seed: Option<Vec<f64>> },
    ReadGrad { h: usize },
    ClearGrad { h: usize, via_replace: bool },
    /// `GradientDescent::new(lr).update(params)`
    Update { lr: f64, params: Vec<usize> },
    /// a brand-new plain (untracked) array with the same dimensions and values as `h`: `Array::from((dims, values))`
    Copy { h: usize },
    /// ownership probe: move the handle into `Vec::<Float>::from(..)` (succeeds iff it is the sole owner of
    /// its buffer), then rebuild the array (values, flag, stashed gradient) in the same slot
    ProbeSole { h: usize },
    /// a custom operation (`Array::op`) whose forward closure panics is applied to the handle and the panic is
    /// caught: a refused call. Nothing may change - not the value, not the handle's flags, not its gradient.
    RefusedOp { h: usize },
}

#[derive(Clone, Debug, PartialEq, Serialize, Deserialize, Default)]
pub struct History {
    pub steps: Vec<Step>,
}

impl History {
    pub fn n_backward(&self) -> usize {
        self.steps.iter().filter(|s| matches!(s, Step::Backward { .. })).count()
    }
    pub fn ops(&self) -> Vec<&OpKind> {
        let mut v = Vec::new();
        for s in &self.steps {
            match s {
                Step::Apply(a) => v.push(&a.op),
                Step::Rebind { spec, .. } => v.push(&spec.op),
                Step::IfGt { then_, else_, .. } => {
                    v.push(&then_.op);
                    if let Some(e) = else_ {
                        v.push(&e.op)
                    }
                }
                _ => {}
            }
        }
        v
    }
}
