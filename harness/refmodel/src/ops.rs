//! Reference operations, written from the mathematical definitions in the property statements
//! as naive index loops. `Refuse` = the property says the operation must refuse these operands;
//! `OutOfDomain` = the property does not quantify over these operands (never generated).

use crate::tensor::*;

#[derive(Clone, Debug, PartialEq)]
pub enum RefErr {
    Refuse(String),
    OutOfDomain(String),
}
pub type R<X> = Result<X, RefErr>;

fn refuse<X>(s: impl Into<String>) -> R<X> {
    Err(RefErr::Refuse(s.into()))
}
fn ood<X>(s: impl Into<String>) -> R<X> {
    Err(RefErr::OutOfDomain(s.into()))
}

/// element-wise binary operation with right-aligned broadcasting
pub fn ew(a: &T, b: &T, f: impl Fn(&Dual, &Dual) -> Dual) -> R<T> {
    let dims = match broadcast_dims(&a.dims, &b.dims) {
        Some(d) => d,
        None => return refuse(format!("shapes {:?} and {:?} do not broadcast", a.dims, b.dims)),
    };
    let n = numel(&dims);
    let mut vals = Vec::with_capacity(n);
    for k in 0..n {
        let idx = unravel(k, &dims);
        vals.push(f(&a.vals[ravel_broadcast(&idx, &a.dims)], &b.vals[ravel_broadcast(&idx, &b.dims)]));
    }
    Ok(T::new(dims, vals))
}
pub fn add(a: &T, b: &T) -> R<T> {
    ew(a, b, |x, y| x.add(y))
}
pub fn sub(a: &T, b: &T) -> R<T> {
    ew(a, b, |x, y| x.sub(y))
}
pub fn mul(a: &T, b: &T) -> R<T> {
    ew(a, b, |x, y| x.mul(y))
}
pub fn div(a: &T, b: &T) -> R<T> {
    ew(a, b, |x, y| x.div(y))
}
/// alpha * x + y
pub fn axpy(alpha: f64, x: &T, y: &T) -> R<T> {
    ew(x, y, |p, q| p.scale(alpha).add(q))
}

pub fn map(a: &T, f: impl Fn(&Dual) -> Dual) -> T {
    T::new(a.dims.clone(), a.vals.iter().map(f).collect())
}
pub fn neg(a: &T) -> T {
    map(a, |x| x.neg())
}
pub fn scale(a: &T, k: f64) -> T {
    map(a, |x| x.scale(k))
}
pub fn powf(a: &T, e: f64) -> T {
    map(a, |x| {
        let f = x.v.powf(e);
        // d/dx x^e = e x^(e-1); defined as 0 for e == 0
        let fp = if e == 0.0 { 0.0 } else { e * x.v.powf(e - 1.0) };
        let fpp = if e == 0.0 || e == 1.0 { 0.0 } else { e * (e - 1.0) * x.v.powf(e - 2.0) };
        x.unary(f, fp, if fpp.is_finite() { fpp } else { 0.0 })
    })
}
pub fn ln(a: &T) -> T {
    map(a, |x| x.unary(x.v.ln(), 1.0 / x.v, 1.0 / (x.v * x.v)))
}
pub fn exp(a: &T) -> T {
    map(a, |x| {
        let e = x.v.exp();
        x.unary(e, e, e)
    })
}
pub fn recip(a: &T) -> T {
    map(a, |x| x.unary(1.0 / x.v, -1.0 / (x.v * x.v), 2.0 / (x.v * x.v * x.v)))
}
thread_local! {
    /// number of relu inputs seen so far whose sign is within rounding noise (|v| <= 1e-9 * magnitude of its terms)
    static KINKS: std::cell::Cell<u64> = std::cell::Cell::new(0);
}
/// A relu input that is zero only up to rounding makes the derivative undecidable between two correct
/// implementations; callers discard such cases unless all data is exact.
pub fn kink_count() -> u64 {
    KINKS.with(|k| k.get())
}
static KINK_REL_BITS: std::sync::atomic::AtomicU64 = std::sync::atomic::AtomicU64::new(0);
/// relative width of the rounding-noise band around a relu kink (default 1e-9; the single-precision build widens it)
pub fn set_kink_rel(x: f64) {
    KINK_REL_BITS.store(x.to_bits(), std::sync::atomic::Ordering::Relaxed);
}
fn kink_rel() -> f64 {
    let b = KINK_REL_BITS.load(std::sync::atomic::Ordering::Relaxed);
    if b == 0 {
        1e-9
    } else {
        f64::from_bits(b)
    }
}
/// max(0, x); derivative 1 for x > 0 and 0 otherwise (corgi's documented convention at 0)
pub fn relu(a: &T) -> T {
    map(a, |x| {
        // ... and a non-zero input below the smallest normal number of the working precision may have underflowed
        // to zero in the library (sigmoid(-192) is 4e-84, which is 0 in single precision)
        let tiny = if kink_rel() > 1e-6 { 1e-36 } else { 1e-300 };
        if x.vm > 0.0 && (x.v.abs() <= kink_rel() * x.vm || x.v.abs() < tiny) {
            KINKS.with(|k| k.set(k.get() + 1));
        }
        if x.v > 0.0 {
            x.unary(x.v, 1.0, 0.0)
        } else {
            x.unary(0.0, 0.0, 0.0)
        }
    })
}
pub fn sigmoid(a: &T) -> T {
    map(a, |x| {
        let s = 1.0 / (1.0 + (-x.v).exp());
        // |s''| <= 0.1 everywhere and <= e^-|t| for every t in the neighbourhood the argument may lie in: in the
        // saturated tails the slope is not ill-conditioned, so a non-finite library value there is not "noise"
        let spread = (x.vm - x.v.abs()).max(0.0) + x.v.abs() * 1e-3;
        let fpp = (-(x.v.abs() - spread).max(0.0)).exp().min(0.1);
        let fp = s * (1.0 - s);
        // the slope formed as s (1 - s) cancels where s is near one: an absolute error of one rounding of s, which the
        // term s^2 / 1000 covers in both precisions and which vanishes in the other tail
        Dual::lin(s, s.abs() + fp.abs() * x.vm, &[(x, fp, fp.abs() + fpp * spread + 1e-3 * s * s)])
    })
}
/// exponentials divided by their sum over the last dimension
pub fn softmax(a: &T) -> T {
    let l = *a.dims.last().unwrap();
    let mut vals = Vec::with_capacity(a.numel());
    for row in a.vals.chunks(l) {
        let ex: Vec<Dual> = row
            .iter()
            .map(|x| {
                let e = x.v.exp();
                x.unary(e, e, e)
            })
            .collect();
        let mut s = Dual::zero();
        for e in &ex {
            s = s.add(e);
        }
        for e in &ex {
            vals.push(e.div(&s));
        }
    }
    T::new(a.dims.clone(), vals)
}

/// last k dimensions collapsed into one unit dimension holding their sums; k = 0 is the identity
pub fn sum(a: &T, k: usize) -> R<T> {
    if k > a.rank() {
        return ood("sum(k) with k > rank");
    }
    if k == 0 {
        return Ok(a.clone());
    }
    let lead = &a.dims[..a.rank() - k];
    let group: usize = a.dims[a.rank() - k..].iter().product();
    let mut dims = lead.to_vec();
    dims.push(1);
    let mut vals = Vec::new();
    for chunk in a.vals.chunks(group) {
        let mut s = Dual::zero();
        for x in chunk {
            s = s.add(x);
        }
        vals.push(s);
    }
    Ok(T::new(dims, vals))
}
pub fn sum_all(a: &T) -> Dual {
    let mut s = Dual::zero();
    for x in &a.vals {
        s = s.add(x);
    }
    s
}
pub fn reshape(a: &T, dims: &[usize]) -> R<T> {
    if dims.is_empty() || dims.iter().any(|&d| d == 0) || numel(dims) != a.numel() {
        return refuse(format!("reshape {:?} -> {:?}", a.dims, dims));
    }
    Ok(T::new(dims.to_vec(), a.vals.clone()))
}

/// view a tensor as [lead..., r, c]; a rank-1 tensor is a one-row matrix
fn as_matrix(a: &T) -> (Vec<usize>, usize, usize) {
    if a.rank() == 1 {
        (vec![], 1, a.dims[0])
    } else {
        let n = a.rank();
        (a.dims[..n - 2].to_vec(), a.dims[n - 2], a.dims[n - 1])
    }
}

/// Batched, optionally transposed matrix product plus optional additive term (property C05).
pub fn matmul(a: &T, ta: bool, b: &T, tb: bool, c: Option<&T>) -> R<T> {
    if a.rank() == 1 && b.rank() == 1 {
        if ta || tb {
            return ood("two rank-1 operands with a transpose flag");
        }
        if a.dims[0] != b.dims[0] {
            return refuse("dot product of vectors of different length");
        }
        let mut s = Dual::zero();
        for (x, y) in a.vals.iter().zip(&b.vals) {
            s = s.add(&x.mul(y));
        }
        if let Some(c) = c {
            if c.numel() != 1 {
                return ood("additive term of a dot product with more than one element");
            }
            s = s.add(&c.vals[0]);
        }
        return Ok(T::new(vec![1], vec![s]));
    }
    let (la, ar, ac) = as_matrix(a);
    let (lb, br, bc) = as_matrix(b);
    let (rows, inner_a) = if ta { (ac, ar) } else { (ar, ac) };
    let (inner_b, cols) = if tb { (bc, br) } else { (br, bc) };
    if inner_a != inner_b {
        return refuse(format!("inner dimensions {} and {} differ", inner_a, inner_b));
    }
    let lead = match broadcast_dims(&la, &lb) {
        Some(l) => l,
        None => return refuse(format!("leading dimensions {:?} and {:?} do not broadcast", la, lb)),
    };
    let mut dims = lead.clone();
    dims.push(rows);
    dims.push(cols);
    if let Some(c) = c {
        if c.rank() > dims.len() {
            return ood("additive term with more dimensions than the result");
        }
        if c.numel() != 1 {
            // broadcast over rows and batches only
            if *c.dims.last().unwrap() != cols {
                return refuse("additive term columns");
            }
            if c.rank() >= 2 && c.dims[c.rank() - 2] != 1 && c.dims[c.rank() - 2] != rows {
                return refuse("additive term rows");
            }
            if !broadcastable_to(&c.dims, &dims) {
                return refuse("additive term leading dimensions");
            }
        }
    }
    let nb = numel(&lead);
    let mut vals = Vec::with_capacity(nb * rows * cols);
    for bi in 0..nb {
        let lidx = unravel(bi, &lead);
        let oa = ravel_broadcast(&lidx, &la) * ar * ac;
        let ob = ravel_broadcast(&lidx, &lb) * br * bc;
        for r in 0..rows {
            for j in 0..cols {
                let mut s = match c {
                    None => Dual::zero(),
                    Some(c) => {
                        if c.numel() == 1 {
                            c.vals[0].clone()
                        } else {
                            let mut idx = lidx.clone();
                            idx.push(r);
                            idx.push(j);
                            c.vals[ravel_broadcast(&idx, &c.dims)].clone()
                        }
                    }
                };
                for k in 0..inner_a {
                    let x = if ta { &a.vals[oa + k * ac + r] } else { &a.vals[oa + r * ac + k] };
                    let y = if tb { &b.vals[ob + j * bc + k] } else { &b.vals[ob + k * bc + j] };
                    s = s.add(&x.mul(y));
                }
                vals.push(s);
            }
        }
    }
    Ok(T::new(dims, vals))
}

/// Direct sliding-window convolution (property C06).
/// image [batch..., depth, rows, cols], filters [count, depth, frows, fcols], strides (sr, sc)
pub fn conv(img: &T, filt: &T, sr: usize, sc: usize) -> R<T> {
    if img.rank() < 3 || (filt.rank() != 4 && filt.rank() != 3) {
        return ood("conv ranks");
    }
    if sr == 0 || sc == 0 {
        return ood("zero stride");
    }
    let n = img.rank();
    let (depth, rows, cols) = (img.dims[n - 3], img.dims[n - 2], img.dims[n - 1]);
    // a filter array without a count dimension is a single filter
    let fo = filt.rank() - 3;
    let (count, fdepth, fr, fc) = (if fo == 1 { filt.dims[0] } else { 1 }, filt.dims[fo], filt.dims[fo + 1], filt.dims[fo + 2]);
    if fdepth != depth {
        return ood("filter depth differs from image depth");
    }
    if fr > rows || fc > cols {
        return ood("filter larger than image");
    }
    let orow = (rows - fr) / sr + 1;
    let ocol = (cols - fc) / sc + 1;
    let batch = &img.dims[..n - 3];
    let nb = numel(batch);
    let mut dims = batch.to_vec();
    dims.extend([count, orow, ocol]);
    let isz = depth * rows * cols;
    let mut vals = Vec::with_capacity(nb * count * orow * ocol);
    for bi in 0..nb {
        for f in 0..count {
            for y in 0..orow {
                for x in 0..ocol {
                    let mut s = Dual::zero();
                    for k in 0..depth {
                        for m in 0..fr {
                            for q in 0..fc {
                                let iv = &img.vals[bi * isz + (k * rows + (y * sr + m)) * cols + (x * sc + q)];
                                let fv = &filt.vals[((f * depth + k) * fr + m) * fc + q];
                                s = s.add(&iv.mul(fv));
                            }
                        }
                    }
                    vals.push(s);
                }
            }
        }
    }
    Ok(T::new(dims, vals))
}

/// (target - output)^2 / element count
pub fn mse(output: &T, target: &T) -> R<T> {
    let n = output.numel() as f64;
    let diff = sub(target, output)?;
    Ok(map(&diff, |x| x.mul(x).scale(1.0 / n)))
}
/// -target * ln(output) / leading dimension
pub fn cross_entropy(output: &T, target: &T) -> R<T> {
    let lead = output.dims[0] as f64;
    let l = ln(output);
    let p = mul(&neg(target), &l)?;
    Ok(scale(&p, 1.0 / lead))
}

#[derive(Clone, Copy, Debug, PartialEq, Eq, Hash, serde::Serialize, serde::Deserialize)]
pub enum Act {
    None,
    Relu,
    Sigmoid,
    Softmax,
}
pub fn activate(x: &T, a: Act) -> T {
    match a {
        Act::None => x.clone(),
        Act::Relu => relu(x),
        Act::Sigmoid => sigmoid(x),
        Act::Softmax => softmax(x),
    }
}
/// activation(x W^T + b), W: [out, in], b: [out], x: [in] or [batch, in]
pub fn dense(x: &T, w: &T, b: &T, a: Act) -> R<T> {
    Ok(activate(&matmul(x, false, w, true, Some(b))?, a))
}
/// activation(conv(x, filters, stride) + b), b: [count, 1, 1]
pub fn conv_layer(x: &T, f: &T, b: &T, sr: usize, sc: usize, a: Act) -> R<T> {
    Ok(activate(&add(&conv(x, f, sr, sc)?, b)?, a))
}

use crate::ir::OpKind;
/// does any element of a reference tensor violate the in-domain value range of `op`?
/// the relaxed domain of the wide-magnitude generators: divisors, logarithm arguments and power bases with
/// magnitude in [lo, hi], arguments of exp-like functions in [-exp_max, exp_max] (conditioning is tracked by the
/// magnitudes of the dual numbers, results beyond the generator's `max_abs` are filtered by the caller)
pub fn in_wide_domain(op: &OpKind, operands: &[&T], lo: f64, hi: f64, exp_max: f64) -> bool {
    use OpKind::*;
    // arguments of functions with a singularity at 0 must be well separated from it RELATIVE TO THEIR OWN NOISE
    // SCALE (the magnitude of the terms they were computed from): ln(softmax of one element) is 0 up to rounding,
    // and its reciprocal is decided by the last bit of a quotient
    let cond = if exp_max < 50.0 { 1e-2 } else { 1e-6 };
    let rng = |t: &T, lo: f64, hi: f64| t.vals.iter().all(|x| x.v >= lo && x.v <= hi && x.v.abs() >= cond * x.vm);
    let absrng = |t: &T, lo: f64, hi: f64| t.vals.iter().all(|x| x.v.abs() >= lo && x.v.abs() <= hi && (lo == 0.0 || x.v.abs() >= cond * x.vm));
    match op {
        Div => absrng(operands[1], lo, hi),
        Recip => absrng(operands[0], lo, hi),
        Ln | CostCe => rng(operands[0], lo, hi),
        Exp | Softmax | ActSoftmax => operands[0].vals.iter().all(|x| x.v >= -exp_max && x.v <= exp_max),
        // the logistic function and its slope are finite for every finite argument, also where e^-x overflows
        Sigmoid | ActSigmoid => absrng(operands[0], 0.0, hi),
        Powf(e) => {
            if *e == e.trunc() && *e >= 1.0 {
                absrng(operands[0], 0.0, hi.powf(0.25))
            } else if *e == e.trunc() {
                absrng(operands[0], lo.powf(0.25), hi.powf(0.25))
            } else {
                rng(operands[0], lo.powf(0.25), hi.powf(0.25))
            }
        }
        _ => true,
    }
}

pub fn in_domain(op: &OpKind, operands: &[&T]) -> bool {
    use OpKind::*;
    let rng = |t: &T, lo: f64, hi: f64| t.vals.iter().all(|x| x.v >= lo && x.v <= hi);
    let absrng = |t: &T, lo: f64, hi: f64| t.vals.iter().all(|x| x.v.abs() >= lo && x.v.abs() <= hi);
    match op {
        Div => absrng(operands[1], 0.25, 1e4),
        Recip => absrng(operands[0], 0.25, 1e4),
        Ln | CostCe => rng(operands[0], 0.25, 1e4),
        Exp | Softmax | Sigmoid | ActSoftmax | ActSigmoid => rng(operands[0], -3.0, 3.0),
        Powf(e) => {
            if *e == e.trunc() && *e >= 1.0 {
                absrng(operands[0], 0.0, 16.0)
            } else if *e == e.trunc() {
                absrng(operands[0], 0.25, 16.0)
            } else {
                rng(operands[0], 0.25, 4.0)
            }
        }
        _ => true,
    }
}
