//! Reference model for the corgi verification harness. No dependency on corgi.
pub mod ir;
pub mod model;
pub mod ops;
pub mod tensor;
pub mod vals;
pub mod elab;
