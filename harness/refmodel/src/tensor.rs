//! Reference scalars (forward-mode dual numbers with magnitude tracking) and row-major tensors.
//! Nothing in this crate depends on corgi.

/// A forward-mode dual number.
/// `v`  value; `vm` magnitude scale of `v` (sum of absolute values of the terms that produced it, >= |v|);
/// `d`  tangent, SPARSE: entries (direction, value, magnitude) sorted by direction; absent directions are zero.
///      The magnitude is the sum of absolute values of path products. (Leaves carry one-hot tangents, so
///      element-wise operations on large arrays stay O(1) per element instead of O(number of directions).)
#[derive(Clone, Debug, Default, PartialEq)]
pub struct Dual {
    pub v: f64,
    pub vm: f64,
    pub d: Vec<(u32, f64, f64)>,
}

impl Dual {
    pub fn c(v: f64) -> Dual {
        Dual { v, vm: v.abs(), d: Vec::new() }
    }
    pub fn zero() -> Dual {
        Dual::c(0.0)
    }
    /// self += coef * x  (tangent part only); `cmag` is the magnitude used for the coefficient.
    pub fn acc_tangent(&mut self, coef: f64, cmag: f64, x: &Dual) {
        if x.d.is_empty() {
            return;
        }
        if self.d.is_empty() {
            self.d = x.d.iter().map(|&(i, a, b)| (i, 0.0 + coef * a, 0.0 + cmag * b)).collect();
            return;
        }
        // merge two sorted lists; entries of one direction are added in the order of the calls
        let old = std::mem::take(&mut self.d);
        let mut out = Vec::with_capacity(old.len() + x.d.len());
        let (mut p, mut q) = (0, 0);
        while p < old.len() || q < x.d.len() {
            if q >= x.d.len() || (p < old.len() && old[p].0 < x.d[q].0) {
                out.push(old[p]);
                p += 1;
            } else if p >= old.len() || x.d[q].0 < old[p].0 {
                let (i, a, b) = x.d[q];
                out.push((i, 0.0 + coef * a, 0.0 + cmag * b));
                q += 1;
            } else {
                let (i, a, b) = x.d[q];
                out.push((i, old[p].1 + coef * a, old[p].2 + cmag * b));
                p += 1;
                q += 1;
            }
        }
        self.d = out;
    }
    /// value, value magnitude and a linear combination of tangents
    pub fn lin(v: f64, vm: f64, terms: &[(&Dual, f64, f64)]) -> Dual {
        let mut r = Dual { v, vm: vm.max(v.abs()), d: Vec::new() };
        for (x, c, cm) in terms {
            r.acc_tangent(*c, *cm, x);
        }
        r
    }
    pub fn add(&self, o: &Dual) -> Dual {
        Dual::lin(self.v + o.v, self.vm + o.vm, &[(self, 1.0, 1.0), (o, 1.0, 1.0)])
    }
    pub fn sub(&self, o: &Dual) -> Dual {
        Dual::lin(self.v - o.v, self.vm + o.vm, &[(self, 1.0, 1.0), (o, -1.0, 1.0)])
    }
    pub fn mul(&self, o: &Dual) -> Dual {
        Dual::lin(self.v * o.v, self.vm * o.vm, &[(self, o.v, o.vm), (o, self.v, self.vm)])
    }
    pub fn div(&self, o: &Dual) -> Dual {
        let inv = 1.0 / o.v;
        let cond = o.vm * inv.abs(); // >= 1: relative uncertainty of the divisor
        Dual::lin(
            // the quotient itself is the correctly rounded one (x * (1/y) can differ from x / y in the last bit,
            // which an ill-conditioned continuation such as ln(e / e) amplifies without bound)
            self.v / o.v,
            // (ordered so that huge exponentials do not overflow in intermediate products)
            self.vm * inv.abs() + (self.v.abs() * inv.abs()) * (o.vm * inv.abs()),
            &[(self, inv, inv.abs() * cond), (o, -(self.v * inv) * inv, (self.vm * inv.abs()) * inv.abs() * 2.0 * cond)],
        )
    }
    pub fn neg(&self) -> Dual {
        Dual::lin(-self.v, self.vm, &[(self, -1.0, 1.0)])
    }
    pub fn scale(&self, k: f64) -> Dual {
        Dual::lin(self.v * k, self.vm * k.abs(), &[(self, k, k.abs())])
    }
    /// unary function with value `f`, derivative `fp` and a bound `fpp` on |f''| near v (for conditioning)
    pub fn unary(&self, f: f64, fp: f64, fpp: f64) -> Dual {
        let spread = (self.vm - self.v.abs()).max(0.0);
        Dual::lin(f, f.abs() + fp.abs() * self.vm, &[(self, fp, fp.abs() + fpp.abs() * (spread + self.v.abs() * 1e-3))])
    }
    /// drop the tangent (stop-gradient)
    pub fn detached(&self) -> Dual {
        Dual { v: self.v, vm: self.vm, d: Vec::new() }
    }
    fn entry(&self, i: usize) -> Option<&(u32, f64, f64)> {
        self.d.binary_search_by_key(&(i as u32), |e| e.0).ok().map(|k| &self.d[k])
    }
    pub fn dir(&self, i: usize) -> f64 {
        self.entry(i).map_or(0.0, |e| e.1)
    }
    pub fn dirm(&self, i: usize) -> f64 {
        self.entry(i).map_or(0.0, |e| e.2)
    }
}

pub type Dims = Vec<usize>;

pub fn numel(d: &[usize]) -> usize {
    d.iter().product()
}

/// multi-index of a flat row-major position
pub fn unravel(mut flat: usize, dims: &[usize]) -> Vec<usize> {
    let mut idx = vec![0; dims.len()];
    for i in (0..dims.len()).rev() {
        idx[i] = flat % dims[i];
        flat /= dims[i];
    }
    idx
}

/// flat row-major position of a full multi-index
pub fn ravel(idx: &[usize], dims: &[usize]) -> usize {
    assert_eq!(idx.len(), dims.len());
    let mut f = 0;
    for i in 0..dims.len() {
        assert!(idx[i] < dims[i]);
        f = f * dims[i] + idx[i];
    }
    f
}

/// flat position in an operand of dimensions `dims` of the element that right-aligned broadcasting
/// pairs with index `idx` of the (larger-or-equal rank) result: index 0 along broadcast dimensions.
pub fn ravel_broadcast(idx: &[usize], dims: &[usize]) -> usize {
    let off = idx.len() - dims.len();
    let mut f = 0;
    for i in 0..dims.len() {
        let k = if dims[i] == 1 { 0 } else { idx[i + off] };
        f = f * dims[i] + k;
    }
    f
}

/// Right-aligned broadcast of two shapes: pairwise maximum, or None when a pair is neither equal nor 1.
pub fn broadcast_dims(a: &[usize], b: &[usize]) -> Option<Dims> {
    let n = a.len().max(b.len());
    let mut out = vec![0; n];
    for i in 0..n {
        let x = if i < n - a.len() { 1 } else { a[i - (n - a.len())] };
        let y = if i < n - b.len() { 1 } else { b[i - (n - b.len())] };
        if x == y || x == 1 || y == 1 {
            out[i] = x.max(y);
        } else {
            return None;
        }
    }
    Some(out)
}

/// can `small` be broadcast (right-aligned) to exactly `big`?
pub fn broadcastable_to(small: &[usize], big: &[usize]) -> bool {
    if small.len() > big.len() {
        return false;
    }
    let off = big.len() - small.len();
    small.iter().enumerate().all(|(i, &d)| d == 1 || d == big[i + off])
}

/// A reference tensor: row-major values under `dims`.
#[derive(Clone, Debug, PartialEq)]
pub struct T {
    pub dims: Dims,
    pub vals: Vec<Dual>,
}

impl T {
    pub fn new(dims: Dims, vals: Vec<Dual>) -> T {
        assert!(dims.iter().all(|&d| d >= 1), "reference tensor with zero dimension");
        assert_eq!(numel(&dims), vals.len(), "reference tensor element count");
        T { dims, vals }
    }
    pub fn from_f64(dims: &[usize], vals: &[f64]) -> T {
        T::new(dims.to_vec(), vals.iter().map(|&v| Dual::c(v)).collect())
    }
    pub fn numel(&self) -> usize {
        self.vals.len()
    }
    pub fn rank(&self) -> usize {
        self.dims.len()
    }
    pub fn values(&self) -> Vec<f64> {
        self.vals.iter().map(|d| d.v).collect()
    }
    pub fn mags(&self) -> Vec<f64> {
        self.vals.iter().map(|d| d.vm).collect()
    }
    pub fn detached(&self) -> T {
        T { dims: self.dims.clone(), vals: self.vals.iter().map(|d| d.detached()).collect() }
    }
    /// attach fresh tangent directions dir0.. to every element (added on top of inherited tangents)
    pub fn with_fresh_dirs(mut self, dir0: usize) -> T {
        for (i, x) in self.vals.iter_mut().enumerate() {
            let one = Dual { v: 0.0, vm: 0.0, d: vec![((dir0 + i) as u32, 1.0, 1.0)] };
            x.acc_tangent(1.0, 1.0, &one);
        }
        self
    }
    pub fn max_abs(&self) -> f64 {
        self.vals.iter().fold(0.0, |a, x| a.max(x.v.abs()))
    }
    pub fn min_abs(&self) -> f64 {
        self.vals.iter().fold(f64::INFINITY, |a, x| a.min(x.v.abs()))
    }
    pub fn min_val(&self) -> f64 {
        self.vals.iter().fold(f64::INFINITY, |a, x| a.min(x.v))
    }
    pub fn all_finite(&self) -> bool {
        self.vals.iter().all(|x| x.v.is_finite() && x.d.iter().all(|t| t.1.is_finite()))
    }
}

/// shapes with a given element count (rank <= 4)
pub fn shapes_with_numel(n: usize) -> Vec<Vec<usize>> {
    let mut out = vec![];
    fn rec(n: usize, rank_left: usize, cur: &mut Vec<usize>, out: &mut Vec<Vec<usize>>) {
        if rank_left == 0 {
            if n == 1 && !cur.is_empty() {
                out.push(cur.clone());
            }
            return;
        }
        if n == 1 && !cur.is_empty() {
            out.push(cur.clone());
        }
        for d in 1..=n {
            if n % d == 0 {
                cur.push(d);
                rec(n / d, rank_left - 1, cur, out);
                cur.pop();
            }
        }
    }
    rec(n, 4, &mut vec![], &mut out);
    out.sort();
    out.dedup();
    out
}
