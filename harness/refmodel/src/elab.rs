//! Recipes and their elaboration into well-typed histories.
//! A recipe is a vector of raw byte instructions produced by proptest (or decoded from fuzzer bytes).
//! Elaboration is deterministic and total: every recipe yields a valid history (construction, not
//! rejection). Selectors are mapped monotonically (sel * len >> 8), so shrinking a byte towards 0 moves
//! towards simpler choices (older handles, earlier table entries, smaller sizes).

use crate::ir::*;
use crate::model::*;
use crate::ops::{in_domain, RefErr};
use crate::tensor::*;
use crate::vals::*;

pub type Instr = [u8; 8];

#[derive(Clone, Copy, Debug, PartialEq, Eq)]
pub enum Kind {
    Leaf,
    Unary,
    Binary,
    Matmul,
    Conv,
    SumReshape,
    Custom,
    CloneH,
    DropH,
    Rebind,
    IfGt,
    Flag,
    Backward,
    ReadGrad,
    ClearGrad,
    Update,
    Probe,
    /// `let y = x.clone().untracked().tracked();` - a second handle on the same array whose flags went off and on
    Retrack,
    /// a refused call (a custom operation whose forward closure panics) on a live handle
    Refused,
}

#[derive(Clone, Debug)]
pub struct GenCfg {
    /// instruction kinds with weights (order: simplest first)
    pub kinds: Vec<(Kind, u32)>,
    pub max_rank: usize,
    pub max_size: usize,
    /// largest element count of any array
    pub max_elems: usize,
    pub max_steps: usize,
    /// restrict to integer data and exact operations
    pub exact_only: bool,
    /// percentage of new leaves that are tracked
    pub tracked_pct: u32,
    /// append `backward` on the newest result when the recipe contains no pass
    pub final_backward: bool,
    /// flag steps may touch operation results too (C09); otherwise only leaves
    pub flag_results: bool,
    pub dir_budget: usize,
    /// largest magnitude allowed for any value
    pub max_abs: f64,
    /// fetched gradients may be used as (untracked) operands of later operations
    pub grad_operands: bool,
    /// after the recipe: for up to this many live handles, clear every gradient and run one more pass
    pub residue_probes: usize,
    /// after the recipe: drop every operation result and probe every leaf for sole ownership
    pub final_release_probe: bool,
    /// the sizes a generated dimension may take (empty: 1..=max_size)
    pub sizes: Vec<usize>,
    /// binary exponents by which the values of a new leaf are scaled, one per leaf (empty: no scaling)
    pub mag_exps: Vec<i32>,
    /// binary exponents by which explicit seeds are scaled (empty: the default table of moderate powers of two)
    pub seed_exps: Vec<i32>,
    /// every third leaf: each element additionally scaled by its own 2^j, |j| <= elem_jitter
    pub elem_jitter: i32,
    /// Some((lo, hi, exp_max)): the relaxed operand domain of `ops::in_wide_domain` instead of the narrow default
    pub wide_domain: Option<(f64, f64, f64)>,
}

/// Generator profiles that widen what the small default programs reach.
#[derive(Clone, Copy, Debug, PartialEq)]
pub enum Profile {
    /// dimensions around and beyond typical block lengths (16 .. 130), fewer steps
    LargeDims,
    /// leaves and seeds of very different binary magnitudes
    WideMagnitudes,
}

impl GenCfg {
    pub fn programs(exact_only: bool) -> GenCfg {
        use Kind::*;
        GenCfg {
            kinds: vec![(Binary, 30), (Unary, 18), (Leaf, 8), (SumReshape, 8), (Matmul, 8), (Rebind, 6), (Custom, 6), (CloneH, 3), (Conv, 4), (IfGt, 5), (Flag, 4), (Retrack, 3), (DropH, 2), (Refused, 2)],
            max_rank: 3,
            max_size: 3,
            max_elems: 64,
            max_steps: 14,
            exact_only,
            tracked_pct: 75,
            final_backward: true,
            flag_results: true,
            dir_budget: 4096,
            max_abs: 1e4,
            grad_operands: true,
            residue_probes: 0,
            final_release_probe: false,
            sizes: vec![],
            mag_exps: vec![],
            seed_exps: vec![],
            elem_jitter: 0,
            wide_domain: None,
        }
    }
    fn size(&self, sel: u8) -> usize {
        if self.sizes.is_empty() {
            1 + ((sel as usize * self.max_size) >> 8)
        } else {
            self.sizes[(sel as usize * self.sizes.len()) >> 8]
        }
    }
    /// `single_precision`: the checks run against the f32 build (narrower exponent range)
    pub fn with_profile(mut self, p: Profile, thorough: bool, single_precision: bool) -> GenCfg {
        match p {
            Profile::LargeDims => {
                self.sizes = vec![1, 2, 3, 2, 4, 5, 8, 9, 16, 17, 33, 64, 65, 96, 97, 128, 130];
                self.max_rank = self.max_rank.min(3);
                self.max_elems = if thorough { 2200 } else { 1100 };
                self.max_steps = self.max_steps.min(if thorough { 14 } else { 9 });
                // only leaves get tangent directions: the reference stays affordable at these sizes
                self.dir_budget = 0;
            }
            Profile::WideMagnitudes => {
                if single_precision {
                    self.mag_exps = vec![-6, -3, 0, 0, 2, 5, 6];
                    self.seed_exps = vec![0, -8, 6, 0, 10, -4];
                    self.max_abs = 1e12;
                    self.elem_jitter = 4;
                    self.wide_domain = Some((1e-5, 1e5, 12.0));
                } else {
                    self.elem_jitter = 26;
                    self.wide_domain = Some((1e-30, 1e30, 80.0));
                    self.mag_exps = vec![-40, -28, -12, -3, 0, 0, 0, 4, 11, 21, 30, 40];
                    self.seed_exps = vec![0, 0, 20, -12, 100, -100, 0, 40, 560, -60];
                    self.max_abs = 1e60;
                }
            }
        }
        self
    }
}

struct El<'a> {
    cfg: &'a GenCfg,
    m: RefState,
    steps: Vec<Step>,
    /// model nodes that are fetched gradients (never flagged tracked, never parameters, never probed)
    grad_handles: Vec<usize>,
    n_backward: usize,
    table: Vec<Kind>,
}

fn pick<X: Clone>(sel: u8, list: &[X]) -> X {
    list[(sel as usize * list.len()) >> 8].clone()
}

const SCALES: [f64; 10] = [2.0, -1.0, 0.5, 1.0, 3.0, -0.25, 0.0, 1.5, -2.0, 0.125];
const EXPONENTS: [f64; 10] = [2.0, 3.0, 1.0, 0.5, -1.0, 1.5, -0.5, 0.0, -2.0, 4.0];

impl<'a> El<'a> {
    fn live(&self) -> Vec<usize> {
        self.m.live_handles()
    }
    /// does the handle hold a fetched gradient (or a clone of one)?
    fn is_grad(&self, h: usize) -> bool {
        self.m.handles[h].as_ref().map_or(false, |hd| self.grad_handles.contains(&hd.node))
    }
    /// handles that may be used as operands
    fn operands(&self) -> Vec<usize> {
        if self.cfg.grad_operands {
            self.live()
        } else {
            self.live().into_iter().filter(|h| !self.is_grad(*h)).collect()
        }
    }
    fn dims(&self, h: usize) -> Vec<usize> {
        self.m.node_of(h).t.dims.clone()
    }
    fn vkind(&self, salt: u8) -> VKind {
        if self.cfg.exact_only {
            VKind::Int
        } else {
            match salt % 6 {
                0 => VKind::Int,
                1 => VKind::Signed,
                2 => VKind::Small,
                3 => VKind::Pos,
                4 => VKind::Real,
                _ => VKind::PosReal,
            }
        }
    }
    fn emit(&mut self, s: Step) -> bool {
        match self.m.step(&s) {
            Ok(()) => {
                self.steps.push(s);
                true
            }
            Err(_) => false,
        }
    }
    fn new_leaf(&mut self, dims: Vec<usize>, i: &Instr, force_tracked: Option<bool>) -> Option<usize> {
        if numel(&dims) > self.cfg.max_elems || dims.is_empty() {
            return None;
        }
        let seed = u64::from_le_bytes(*i) ^ (self.steps.len() as u64) << 40;
        let mut vals = gen_vals(seed, numel(&dims), self.vkind(i[7] >> 2));
        if !self.cfg.mag_exps.is_empty() && !self.cfg.exact_only {
            let e = self.cfg.mag_exps[(mix(seed ^ 0x51) % self.cfg.mag_exps.len() as u64) as usize];
            let k = 2f64.powi(e);
            vals.iter_mut().for_each(|v| *v *= k);
            if mix(seed ^ 0x77) % 3 == 0 {
                spread(&mut vals, seed, self.cfg.elem_jitter);
            }
        }
        let tracked = force_tracked.unwrap_or((mix(seed) % 100) < self.cfg.tracked_pct as u64);
        if self.emit(Step::Leaf { dims, vals, tracked }) {
            Some(self.m.handles.len() - 1)
        } else {
            None
        }
    }
    fn leaf_dims(&self, b: &[u8]) -> Vec<usize> {
        let rank = 1 + ((b[0] as usize * self.cfg.max_rank) >> 8);
        (0..rank).map(|k| self.cfg.size(b[1 + k % (b.len() - 1)])).collect()
    }
    /// is applying `op` to `args` admissible, in-domain, small and bounded? returns the result tensor
    fn try_eval(&self, op: &OpKind, args: &[usize]) -> Option<T> {
        if self.cfg.exact_only && !op.is_exact() {
            return None;
        }
        let ts: Vec<&T> = args.iter().map(|&h| &self.m.node_of(h).t).collect();
        let ok = match self.cfg.wide_domain {
            Some((lo, hi, em)) => crate::ops::in_wide_domain(op, &ts, lo, hi, em),
            None => in_domain(op, &ts),
        };
        if !ok {
            return None;
        }
        let k0 = crate::ops::kink_count();
        let r = self.m.eval(op, args);
        if crate::ops::kink_count() > k0 && !args.iter().all(|&h| self.m.node_of(h).exact) {
            return None;
        }
        match r {
            Ok(t) => {
                if t.numel() <= self.cfg.max_elems && t.all_finite() && t.vals.iter().all(|x| x.vm <= self.cfg.max_abs) {
                    Some(t)
                } else {
                    None
                }
            }
            Err(RefErr::Refuse(_)) | Err(RefErr::OutOfDomain(_)) => None,
        }
    }
    fn apply(&mut self, op: OpKind, args: Vec<usize>) -> bool {
        if self.try_eval(&op, &args).is_none() {
            return false;
        }
        self.emit(Step::Apply(ApplySpec { op, args }))
    }

    fn unary_op(&self, i: &Instr, h: usize) -> OpKind {
        use OpKind::*;
        let exact: [OpKind; 7] = [Neg, ScaleR(pick(i[4], &SCALES)), Relu, ScaleL(pick(i[4], &SCALES)), Powf(2.0), Powf(3.0), ActRelu];
        if self.cfg.exact_only {
            return pick(i[2], &exact).clone();
        }
        let e = if i[5] >= 200 { ((i[4] as f64) / 32.0 - 3.0) * 1.0 } else { pick(i[4], &EXPONENTS) };
        let all: [OpKind; 15] = [Neg, ScaleR(pick(i[4], &SCALES)), Relu, Sigmoid, Exp, Ln, Powf(e), Recip, Softmax, ScaleL(pick(i[4], &SCALES)), Powf(2.0), Sigmoid, ActRelu, ActSigmoid, ActSoftmax];
        let _ = h;
        pick(i[2], &all).clone()
    }

    /// a partner shape derived from `d`: drop leading dimensions, replace a subset by 1, maybe prepend one
    fn partner_dims(&self, d: &[usize], i: &Instr) -> Vec<usize> {
        let drop = (i[4] as usize * d.len()) >> 8;
        let mut p: Vec<usize> = d[drop..].to_vec();
        for (k, x) in p.iter_mut().enumerate() {
            if (i[5] >> (k % 8)) & 1 == 1 {
                *x = 1;
            }
        }
        if i[6] >= 200 && p.len() < self.cfg.max_rank {
            p.insert(0, 2 + (i[6] as usize & 1));
        }
        p
    }

    fn binary(&mut self, i: &Instr, rebind: bool) -> bool {
        use OpKind::*;
        let live = self.operands();
        let x = pick(i[1], &live);
        // (the cost closures are binary operations too: operands (output, target))
        let ops: Vec<OpKind> = if self.cfg.exact_only { vec![Add, Mul, Sub, Axpy(pick(i[6], &SCALES))] } else { vec![Add, Mul, Sub, Div, Axpy(pick(i[6], &SCALES)), Add, Mul, Sub, CostMse, Div, CostCe] };
        let op = pick(i[7], &ops);
        let xd = self.dims(x);
        let y = if i[3] >= 150 {
            let pd = self.partner_dims(&xd, i);
            match self.new_leaf(pd, i, None) {
                Some(h) => h,
                None => x,
            }
        } else {
            let cands: Vec<usize> = self.operands().into_iter().filter(|&h| broadcast_dims(&xd, &self.dims(h)).map_or(false, |d| numel(&d) <= self.cfg.max_elems)).collect();
            if cands.is_empty() {
                x
            } else {
                pick(i[2], &cands)
            }
        };
        let args = if i[4] & 1 == 1 { vec![y, x] } else { vec![x, y] };
        let (op, args) = if self.try_eval(&op, &args).is_some() { (op, args) } else if self.try_eval(&Mul, &args).is_some() { (Mul, args) } else { (Add, args) };
        if rebind {
            if self.try_eval(&op, &args).is_none() {
                return false;
            }
            self.emit(Step::Rebind { target: x, spec: ApplySpec { op, args } })
        } else {
            self.apply(op, args)
        }
    }

    fn matmul(&mut self, i: &Instr) -> bool {
        let live = self.operands();
        let a = pick(i[1], &live);
        let ad = self.dims(a);
        let (ta, tb) = (i[4] & 1 == 1 && ad.len() >= 2, i[4] & 2 == 2);
        // an existing operand that fits (this is where matmul(x, x^T) self-products come from)
        if i[3] < 110 {
            for (ta, tb) in [(ta, tb), (false, true), (true, false), (false, false)] {
                let op = OpKind::Matmul { ta, tb, has_c: false };
                let cands: Vec<usize> = self.operands().into_iter().filter(|&h| self.try_eval(&op, &[a, h]).is_some()).collect();
                if !cands.is_empty() {
                    let b = pick(i[2], &cands);
                    return self.apply(op, vec![a, b]);
                }
            }
        }
        // the dot product of two vectors
        if ad.len() == 1 && i[3] % 3 == 0 {
            if let Some(b) = self.new_leaf(vec![ad[0]], i, None) {
                // sometimes with an additive term: an existing one-element array (often an operation result) or a new leaf
                if i[7] % 3 == 0 {
                    let ones: Vec<usize> = self.operands().into_iter().filter(|&h| h != b && self.dims(h) == vec![1]).collect();
                    let c = if !ones.is_empty() && i[7] % 2 == 0 { Some(pick(i[6], &ones)) } else { self.new_leaf(vec![1], &[i[7], i[6], i[5], i[4], i[3], i[2], i[1], i[0]], None) };
                    if let Some(c) = c {
                        if self.apply(OpKind::Matmul { ta: false, tb: false, has_c: true }, vec![a, b, c]) {
                            return true;
                        }
                    }
                }
                return self.apply(OpKind::Matmul { ta: false, tb: false, has_c: false }, vec![a, b]);
            }
        }
        // synthesise b (and maybe an additive term)
        let (la, r, k) = if ad.len() == 1 { (vec![], 1, ad[0]) } else { (ad[..ad.len() - 2].to_vec(), if ta { ad[ad.len() - 1] } else { ad[ad.len() - 2] }, if ta { ad[ad.len() - 2] } else { ad[ad.len() - 1] }) };
        let cols = self.cfg.size(i[5]);
        let lb: Vec<usize> = match i[6] % 5 {
            0 | 1 => vec![],
            2 => la.clone(),
            3 => la.iter().map(|_| 1).collect(),
            _ => {
                if la.is_empty() {
                    vec![2]
                } else {
                    la[la.len() - 1..].to_vec()
                }
            }
        };
        let mut bd = lb.clone();
        if tb {
            bd.extend([cols, k]);
        } else {
            bd.extend([k, cols]);
        }
        let Some(b) = self.new_leaf(bd, i, None) else { return false };
        let has_c = i[7] % 3 == 0;
        let mut args = vec![a, b];
        if has_c {
            let cd = match (i[7] / 3) % 4 {
                0 => vec![cols],
                1 => vec![r, cols],
                2 => vec![1],
                _ => vec![1, cols],
            };
            if let Some(c) = self.new_leaf(cd, &[i[7], i[6], i[5], i[4], i[3], i[2], i[1], i[0]], None) {
                args.push(c);
            }
        }
        let op = OpKind::Matmul { ta, tb, has_c: args.len() == 3 };
        self.apply(op, args)
    }

    fn conv(&mut self, i: &Instr) -> bool {
        let cands: Vec<usize> = self.operands().into_iter().filter(|&h| self.dims(h).len() >= 3 && self.dims(h).len() <= 4).collect();
        let img = if !cands.is_empty() && i[3] < 128 {
            pick(i[1], &cands)
        } else {
            let depth = 1 + (i[1] as usize % 2);
            let (rows, cols) = if self.cfg.sizes.is_empty() { (1 + ((i[2] as usize * 4) >> 8), 1 + ((i[3] as usize * 4) >> 8)) } else { (self.cfg.size(i[2]).min(12), self.cfg.size(i[3]).min(40)) };
            let mut d = if i[4] % 4 == 3 { vec![2] } else { vec![] };
            d.extend([depth, rows, cols]);
            match self.new_leaf(d, i, None) {
                Some(h) => h,
                None => return false,
            }
        };
        let d = self.dims(img);
        let n = d.len();
        let fr = 1 + ((i[5] as usize * d[n - 2].min(3)) >> 8);
        let fc = 1 + ((i[6] as usize * d[n - 1].min(3)) >> 8);
        let count = 1 + (i[7] as usize % 2);
        let fdims = if count == 1 && i[7] & 2 != 0 { vec![d[n - 3], fr, fc] } else { vec![count, d[n - 3], fr, fc] };
        let Some(f) = self.new_leaf(fdims, &[i[1], i[0], i[3], i[2], i[5], i[4], i[7], i[6]], None) else { return false };
        let sr = 1 + (i[4] as usize >> 2) % 2;
        let sc = 1 + (i[4] as usize >> 4) % 2;
        self.apply(OpKind::Conv { sr, sc }, vec![img, f])
    }

    fn sum_reshape(&mut self, i: &Instr) -> bool {
        let live = self.operands();
        let x = pick(i[1], &live);
        let d = self.dims(x);
        if i[2] % 5 == 4 {
            // nested construction from distinct same-shaped handles (they are consumed); keep at least one handle alive
            let mut same: Vec<usize> = live.iter().copied().filter(|&h| h != x && self.dims(h) == d).collect();
            same.truncate(1 + (i[3] as usize % 2));
            if !same.is_empty() && live.len() > same.len() + 1 && d.len() < self.cfg.max_rank.max(3) {
                let mut args = vec![x];
                args.extend(same);
                if i[4] & 1 == 1 {
                    args.reverse();
                }
                return self.apply(OpKind::Stack(args.len()), args);
            }
        }
        if i[2] & 1 == 0 {
            self.apply(OpKind::Sum((i[4] as usize * (d.len() + 1)) >> 8), vec![x])
        } else {
            let targets: Vec<Vec<usize>> = shapes_with_numel(numel(&d)).into_iter().filter(|t| t.len() <= self.cfg.max_rank.max(d.len())).collect();
            self.apply(OpKind::Reshape(pick(i[4], &targets)), vec![x])
        }
    }

    fn custom(&mut self, i: &Instr) -> bool {
        let live = self.operands();
        let x = pick(i[1], &live);
        let xd = self.dims(x);
        let same: Vec<usize> = self.operands().into_iter().filter(|&h| self.dims(h) == xd).collect();
        if i[4] % 6 >= 4 {
            // broadcasting custom operations: any broadcast-compatible partner
            let cands: Vec<usize> = self.operands().into_iter().filter(|&h| broadcast_dims(&xd, &self.dims(h)).map_or(false, |d| numel(&d) <= self.cfg.max_elems)).collect();
            let y = pick(i[2], &cands);
            let op = if i[4] % 6 == 4 { OpKind::CBAdd } else { OpKind::CBMul };
            let args = if i[5] & 1 == 1 { vec![y, x] } else { vec![x, y] };
            return self.apply(op, args);
        }
        match i[4] % 4 {
            0 => self.apply(OpKind::CAdd, vec![x, pick(i[2], &same)]),
            1 => self.apply(OpKind::CMul, vec![x, pick(i[2], &same)]),
            2 => self.apply(OpKind::CScale(pick(i[5], &SCALES)), vec![x]),
            _ => self.apply(OpKind::CFused3, vec![x, pick(i[2], &same), pick(i[3], &same)]),
        }
    }

    fn ifgt(&mut self, i: &Instr) -> bool {
        let live = self.operands();
        let cond = pick(i[1], &live);
        let target = pick(i[2], &live);
        let cn = self.m.node_of(cond).t.clone();
        let elem = (i[4] as usize * cn.numel()) >> 8;
        let v = cn.vals[elem].v;
        // the threshold lies at a distance from the value that is large against the value's rounding noise
        // (its magnitude scale), so that a build with less precision takes the same branch
        let scale = cn.vals[elem].vm.max(1.0);
        let mut thr = v + (i[5] as f64 - 128.0) / 32.0 * scale;
        if (thr - v).abs() < 1e-2 * scale {
            thr = v - 0.5 * scale;
        }
        let td = self.dims(target);
        let shape_preserving = |me: &El, sel: u8, salt: u8| -> Option<ApplySpec> {
            let fits: Vec<usize> = me.operands().into_iter().filter(|&h| broadcast_dims(&td, &me.dims(h)).map_or(false, |d| d == td)).collect();
            let y = pick(sel, &fits);
            let cands = [
                ApplySpec { op: OpKind::Mul, args: vec![target, y] },
                ApplySpec { op: OpKind::Add, args: vec![target, y] },
                ApplySpec { op: OpKind::ScaleR(pick(salt, &SCALES)), args: vec![target] },
                ApplySpec { op: OpKind::Neg, args: vec![target] },
                ApplySpec { op: OpKind::Sub, args: vec![y, target] },
            ];
            for k in 0..cands.len() {
                let c = &cands[(salt as usize + k) % cands.len()];
                if let Some(t) = me.try_eval(&c.op, &c.args) {
                    if t.dims == td {
                        return Some(c.clone());
                    }
                }
            }
            None
        };
        let Some(then_) = shape_preserving(self, i[3], i[6]) else { return false };
        let else_ = if i[7] & 1 == 1 { shape_preserving(self, i[3].wrapping_add(97), i[7]) } else { None };
        self.emit(Step::IfGt { cond, elem, thr, target, then_, else_ })
    }

    fn backward(&mut self, i: &Instr) -> bool {
        // fetched gradients are plain arrays to read and to use as operands; passes never start on them
        // (several gradient slots may hold the very same array, which the model does not track)
        let live: Vec<usize> = self.live().into_iter().filter(|h| !self.is_grad(*h)).collect();
        if live.is_empty() {
            return false;
        }
        // prefer recent handles: selector 0 = newest
        let root = live[live.len() - 1 - ((i[1] as usize * live.len()) >> 8)];
        let n = self.m.node_of(root).t.numel();
        // seeds of very different magnitudes across the passes of one history (exact powers of two)
        let scale = if self.cfg.seed_exps.is_empty() || self.cfg.exact_only { [1.0, 1.0, 1.0, 1048576.0, 1.0 / 4096.0, 1.0, 16777216.0, 1.0][(i[4] as usize >> 2) % 8] } else { 2f64.powi(self.cfg.seed_exps[(i[4] as usize >> 2) % self.cfg.seed_exps.len()]) };
        let seed = match i[4] % 4 {
            0 => None,
            _ => Some(gen_vals(u64::from_le_bytes(*i), n, if self.cfg.exact_only { VKind::Int } else { VKind::Small }).into_iter().map(|v| v * scale).collect()),
        };
        if self.emit(Step::Backward { h: root, seed }) {
            self.n_backward += 1;
            true
        } else {
            false
        }
    }

    fn instr(&mut self, i: &Instr) {
        let all_live = self.live();
        let live = self.operands();
        let kind = if live.is_empty() { Kind::Leaf } else { self.table[(i[0] as usize * self.table.len()) >> 8] };
        let _ = &all_live;
        let nl = live.len();
        match kind {
            Kind::Leaf => {
                let d = self.leaf_dims(&i[1..]);
                self.new_leaf(d, i, None);
            }
            Kind::Unary => {
                let x = pick(i[1], &live);
                let op = self.unary_op(i, x);
                if !self.apply(op, vec![x]) {
                    // fall back to an operation that is always in domain
                    let fb = if self.cfg.exact_only { OpKind::Neg } else { OpKind::Sigmoid };
                    if !self.apply(fb, vec![x]) {
                        self.apply(OpKind::ScaleR(0.125), vec![x]);
                    }
                }
            }
            Kind::Binary => {
                self.binary(i, false);
            }
            Kind::Rebind => {
                self.binary(i, true);
            }
            Kind::Matmul => {
                self.matmul(i);
            }
            Kind::Conv => {
                self.conv(i);
            }
            Kind::SumReshape => {
                self.sum_reshape(i);
            }
            Kind::Custom => {
                self.custom(i);
            }
            Kind::CloneH => {
                self.emit(Step::Clone { h: pick(i[1], &live) });
            }
            Kind::DropH => {
                if nl > 1 {
                    self.emit(Step::Drop { h: pick(i[1], &live) });
                }
            }
            Kind::IfGt => {
                self.ifgt(i);
            }
            Kind::Flag => {
                let cands: Vec<usize> = live.iter().copied().filter(|h| !self.is_grad(*h) && (self.cfg.flag_results || !self.m.node_of(*h).has_graph())).collect();
                if !cands.is_empty() {
                    let how = [FlagOp::Start, FlagOp::Stop, FlagOp::Tracked, FlagOp::Untracked][i[4] as usize % 4];
                    self.emit(Step::Flag { h: pick(i[1], &cands), how });
                }
            }
            Kind::Backward => {
                self.backward(i);
            }
            Kind::ReadGrad => {
                let cands: Vec<usize> = all_live.iter().copied().filter(|h| !self.is_grad(*h)).collect();
                if cands.is_empty() {
                    return;
                }
                let h = pick(i[1], &cands);
                if self.emit(Step::ReadGrad { h }) {
                    let slot = self.m.handles.len() - 1;
                    if let Some(hd) = &self.m.handles[slot] {
                        self.grad_handles.push(hd.node);
                    }
                }
            }
            Kind::ClearGrad => {
                let cands: Vec<usize> = all_live.iter().copied().filter(|h| !self.is_grad(*h)).collect();
                if !cands.is_empty() {
                    self.emit(Step::ClearGrad { h: pick(i[1], &cands), via_replace: i[4] & 1 == 1 });
                }
            }
            Kind::Retrack => {
                let cands: Vec<usize> = all_live.iter().copied().filter(|h| !self.is_grad(*h)).collect();
                if !cands.is_empty() {
                    let h = pick(i[1], &cands);
                    if self.emit(Step::Clone { h }) {
                        let c = self.m.handles.len() - 1;
                        match i[4] % 3 {
                            0 => {
                                self.emit(Step::Flag { h: c, how: FlagOp::Untracked });
                                self.emit(Step::Flag { h: c, how: FlagOp::Tracked });
                            }
                            1 => {
                                self.emit(Step::Flag { h: c, how: FlagOp::Stop });
                                self.emit(Step::Flag { h: c, how: FlagOp::Start });
                            }
                            _ => {
                                self.emit(Step::Flag { h: c, how: FlagOp::Untracked });
                                self.emit(Step::Flag { h: c, how: FlagOp::Start });
                            }
                        }
                    }
                }
            }
            Kind::Refused => {
                let cands: Vec<usize> = all_live.iter().copied().filter(|h| !self.is_grad(*h)).collect();
                if !cands.is_empty() {
                    self.emit(Step::RefusedOp { h: pick(i[1], &cands) });
                }
            }
            Kind::Probe => {
                let cands: Vec<usize> = live.iter().copied().filter(|h| !self.is_grad(*h) && !self.m.node_of(*h).has_graph() && self.m.sole_owner(*h)).collect();
                if !cands.is_empty() {
                    self.emit(Step::ProbeSole { h: pick(i[1], &cands) });
                }
            }
            Kind::Update => {
                // parameters: graph-less arrays, one handle per node, no fetched gradients, predictable gradient
                let mut seen = vec![];
                let mut params = vec![];
                for &h in &live {
                    let hd = self.m.handle(h);
                    let node = &self.m.nodes[hd.node];
                    if node.has_graph() || node.op.is_some() || self.is_grad(h) || node.grad == GradSlot::Unknown || seen.contains(&hd.node) {
                        continue;
                    }
                    if (i[2] >> (params.len() % 8)) & 1 == 0 || params.is_empty() {
                        seen.push(hd.node);
                        params.push(h);
                    }
                }
                if !params.is_empty() {
                    let lr = pick(i[4], &[0.5, 0.25, 1.0, -0.5, 0.0, 0.125]);
                    self.emit(Step::Update { lr, params });
                }
            }
        }
    }
}

/// Elaborate a recipe into a history.
pub fn elaborate(cfg: &GenCfg, recipe: &[Instr]) -> History {
    let mut table = vec![];
    for (k, w) in &cfg.kinds {
        for _ in 0..*w {
            table.push(*k);
        }
    }
    let mut el = El { cfg, m: RefState::new(cfg.dir_budget), steps: vec![], grad_handles: vec![], n_backward: 0, table };
    for i in recipe {
        if el.steps.len() >= cfg.max_steps {
            break;
        }
        el.instr(i);
    }
    if cfg.final_backward && el.n_backward == 0 && !el.live().is_empty() {
        let tail = recipe.last().copied().unwrap_or([0; 8]);
        // the newest live result (or leaf) is the root
        el.backward(&[0, 0, 0, 0, tail[4], 0, 0, tail[7]]);
    }
    if cfg.residue_probes > 0 {
        let live = el.live();
        let targets: Vec<usize> = live.iter().rev().copied().filter(|h| !el.is_grad(*h)).take(cfg.residue_probes).collect();
        for (k, h) in targets.into_iter().enumerate() {
            for &c in &el.live() {
                el.emit(Step::ClearGrad { h: c, via_replace: (c + k) % 2 == 0 });
            }
            el.backward(&[0, 0, 0, 0, (k as u8) % 4, 0, 0, 0]);
            let _ = h;
            // the pass above starts from the newest handle; rotate roots by starting passes from older ones too
            let n = el.m.node_of(h).t.numel();
            let seed = Some(gen_vals(h as u64 + 17, n, if cfg.exact_only { VKind::Int } else { VKind::Small }));
            el.emit(Step::Backward { h, seed });
        }
    }
    if cfg.final_release_probe {
        for h in el.live() {
            if el.m.node_of(h).has_graph() || el.is_grad(h) {
                el.emit(Step::Drop { h });
            }
        }
        // clones of one array: keep a single handle per array
        let mut seen: Vec<usize> = vec![];
        for h in el.live() {
            let n = el.m.handle(h).node;
            let b = el.m.nodes[n].buffer;
            if seen.contains(&b) {
                el.emit(Step::Drop { h });
            } else {
                seen.push(b);
            }
        }
        for h in el.live() {
            if el.m.sole_owner(h) && !el.m.node_of(h).has_graph() {
                el.emit(Step::ProbeSole { h });
            }
        }
    }
    History { steps: el.steps }
}
