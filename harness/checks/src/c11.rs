//! C11 One pass evaluates each node's derivative once, with its complete adjoint.

use crate::c01::recipe_strategy;
use crate::histcase::*;
use crate::interp::*;
use crate::runner::*;
use refmodel::elab::*;
use refmodel::ir::*;
use serde::{Deserialize, Serialize};
use serde_json::{json, Value};

/// the idx-th DAG with `leaves` leaves and `n` custom-operation nodes; node k takes one operand
/// (scale) or an ordered pair (mul / add) among all earlier nodes. Returns None when idx is out of range.
pub fn dag(leaves: usize, n: usize, mut idx: u64, seed_kind: u8) -> Option<History> {
    let mut steps = vec![];
    let lv: [[f64; 2]; 2] = [[2.0, -1.0], [-2.0, 1.0]];
    for l in 0..leaves {
        steps.push(Step::Leaf { dims: vec![2], vals: lv[l % 2].to_vec(), tracked: true });
    }
    for k in 0..n {
        let m = (leaves + k) as u64;
        let choices = m + m * m;
        let c = idx % choices;
        idx /= choices;
        if c < m {
            steps.push(Step::Apply(ApplySpec { op: OpKind::CScale(2.0), args: vec![c as usize] }));
        } else {
            let p = c - m;
            let (x, y) = ((p / m) as usize, (p % m) as usize);
            let op = if (x + y + k) % 2 == 0 { OpKind::CMul } else { OpKind::CAdd };
            steps.push(Step::Apply(ApplySpec { op, args: vec![x, y] }));
        }
    }
    if idx != 0 {
        return None;
    }
    steps.push(Step::Backward { h: leaves + n - 1, seed: if seed_kind == 0 { None } else { Some(vec![1.0, -2.0]) } });
    Some(History { steps })
}

pub fn dag_count(leaves: usize, n: usize) -> u64 {
    (0..n).map(|k| (leaves + k) as u64).map(|m| m + m * m).product()
}

/// Self-product chains of increasing depth, run as ONE case that stops at the first failure, so a
/// path-proportional engine is reported at a small depth instead of hanging at a large one.
#[derive(Clone, Debug, Serialize, Deserialize)]
pub struct ChainCase {
    pub max_depth: usize,
    /// 0: c = c*c   1: c = fused3(c, c, c)   2: c = (c + c) then scale
    pub pattern: usize,
}

fn chain(depth: usize, pattern: usize) -> History {
    let mut steps = vec![Step::Leaf { dims: vec![2], vals: vec![1.0, -1.0], tracked: true }];
    let mut cur = 0;
    for _ in 0..depth {
        match pattern {
            0 => steps.push(Step::Apply(ApplySpec { op: OpKind::CMul, args: vec![cur, cur] })),
            1 => steps.push(Step::Apply(ApplySpec { op: OpKind::CFused3, args: vec![cur, cur, cur] })),
            _ => steps.push(Step::Apply(ApplySpec { op: OpKind::CAdd, args: vec![cur, cur] })),
        }
        cur += 1;
        if pattern != 0 {
            // keep magnitudes bounded
            steps.push(Step::Apply(ApplySpec { op: OpKind::CScale(0.5), args: vec![cur] }));
            cur += 1;
        }
    }
    steps.push(Step::Backward { h: cur, seed: None });
    History { steps }
}

impl CaseKind for ChainCase {
    const KIND: &'static str = "c11-chain";
    fn size(&self) -> usize {
        self.max_depth
    }
    fn sample(&self) -> Value {
        json!({"self-product-chain": {"pattern": self.pattern, "depths": format!("1..={}", self.max_depth)}})
    }
    fn run(&self) -> Outcome {
        let mut k = KeyHasher::new("chain");
        k.u(self.pattern as u64).u(self.max_depth as u64);
        let mut depths = vec![];
        let mut d = 1;
        while d <= self.max_depth {
            depths.push(d);
            d = if d < 8 { d + 1 } else { d * 2 };
        }
        let mut checked = 0;
        for d in depths {
            let h = chain(d, self.pattern);
            let (out, _) = Interp::new(oracles_for("c11"), crate::histcase::dir_budget_for(&h)).run(&h);
            match out {
                HOutcome::Ok(st) => checked += st.log_entries_checked,
                HOutcome::Fail(f, _) => return Outcome::fail(&f.kind, format!("{}:chain", f.kind), format!("self-product chain of depth {} (pattern {}): {}", d, self.pattern, f.detail), k.finish(), vec!["kind:chain".into()]),
                HOutcome::Discard(w) => return Outcome::discard(&w),
                HOutcome::Internal(m) => return Outcome::internal(m),
            }
        }
        Outcome::pass(checked > 0, k.finish(), vec!["kind:chain".into()])
    }
}

#[derive(Clone, Debug, Serialize, Deserialize)]
pub enum Case11 {
    H(HistCase),
    C(ChainCase),
    /// the inner case after a battery of refused calls (among them a pass that panics) on other arrays in the same thread
    P(HistCase),
}
impl CaseKind for Case11 {
    const KIND: &'static str = "c11";
    fn size(&self) -> usize {
        match self {
            Case11::H(c) => c.size(),
            Case11::C(c) => c.size(),
            Case11::P(c) => c.size() + 1,
        }
    }
    fn sample(&self) -> Value {
        match self {
            Case11::H(c) => c.sample(),
            Case11::C(c) => c.sample(),
            Case11::P(c) => json!({"after-refused-calls": c.sample()}),
        }
    }
    fn run(&self) -> Outcome {
        match self {
            Case11::H(c) => c.run(),
            Case11::C(c) => c.run(),
            Case11::P(c) => {
                crate::exec::refused_calls_battery();
                let mut o = c.run();
                if let Verdict::Fail(f) = &mut o.verdict {
                    f.signature = format!("{}:after-refused-calls", f.signature);
                    f.detail = format!("after a battery of refused calls on other arrays in the same thread: {}", f.detail);
                }
                o
            }
        }
    }
}

pub fn dispatch(kind: &str, v: &Value) -> Option<Outcome> {
    match kind {
        "c11" => serde_json::from_value::<Case11>(v.clone()).ok().map(|c| c.run()),
        "history" => serde_json::from_value::<HistCase>(v.clone()).ok().map(|c| c.run()),
        "c11-chain" => serde_json::from_value::<ChainCase>(v.clone()).ok().map(|c| c.run()),
        "fan-in" => serde_json::from_value::<crate::scale::FanInCase>(v.clone()).ok().map(|c| c.run()),
        _ => None,
    }
}

pub fn custom_cfg(t: Tier, exact: bool) -> GenCfg {
    use Kind::*;
    let mut cfg = GenCfg::programs(exact);
    cfg.kinds = vec![(Custom, 34), (Binary, 22), (Leaf, 8), (Unary, 8), (SumReshape, 5), (Matmul, 4), (Rebind, 4), (CloneH, 3), (Backward, 6), (DropH, 2), (IfGt, 2), (Flag, 5), (Retrack, 4), (Refused, 2)];
    cfg.flag_results = true;
    cfg.max_steps = t.pick(16, 44);
    cfg.max_elems = t.pick(32, 100);
    cfg
}

pub fn campaigns(ctx: &Ctx) -> Stats {
    let mut st = Stats::default();
    let t = ctx.tier;
    // chains first: a path-proportional engine is reported here at depth 2-4
    st.merge(ctx.run_indexed("self-product-chains", 3, None, |i| Some(Case11::C(ChainCase { max_depth: t.pick(64, 256), pattern: i as usize }))));
    if st.failures.is_empty() {
        let nmax = t.pick(4, 5);
        for leaves in 1..=2usize {
            for n in 1..=nmax {
                let cnt = dag_count(leaves, n);
                let name = format!("all-dags-{}-leaves-{}-nodes", leaves, n);
                st.merge(ctx.run_indexed(&name, cnt * 2, Some(&format!("all {} DAGs with {} leaf/leaves and {} custom-operation nodes (each node takes one operand or an ordered pair among all earlier nodes), root = last node, backward(None) and backward(seed)", cnt, leaves, n)), |i| dag(leaves, n, i / 2, (i % 2) as u8).map(|h| Case11::H(HistCase { oracle: "c11".into(), hist: h }))));
            }
        }
        // the same small DAGs after refused calls (a pass that panics among them) on other arrays in the same thread
        for leaves in 1..=2usize {
            let n = 3;
            let cnt = dag_count(leaves, n);
            st.merge(ctx.run_indexed(&format!("all-dags-{}-leaves-{}-nodes-after-refused-calls", leaves, n), cnt, None, |i| dag(leaves, n, i, (i % 2) as u8).map(|h| Case11::P(HistCase { oracle: "c11".into(), hist: h }))));
        }
        {
            let fan = crate::scale::fan_in_cases("c11", t == Tier::Thorough);
            st.merge(ctx.run_indexed("one-node-consumed-up-to-70001-times", fan.len() as u64, None, |i| Some(fan[i as usize].clone())));
        }
        let (len, total) = t.pick((14usize, 160000u64), (40, 600000));
        for (name, exact) in [("mixed-custom-and-builtin-programs-exact", true), ("mixed-custom-and-builtin-programs", false)] {
            let cfg = custom_cfg(t, exact);
            st.merge(ctx.run_prop(name, total / 2, move || recipe_strategy(len), move |r| Some(Case11::H(HistCase { oracle: "c11".into(), hist: elaborate(&cfg, r) }))));
        }
        for (name, p) in [("programs-with-large-dimensions", Profile::LargeDims), ("programs-with-wide-magnitudes", Profile::WideMagnitudes)] {
            let cfg = custom_cfg(t, false).with_profile(p, t == Tier::Thorough, crate::exec::IS_F32);
            st.merge(ctx.run_prop(name, profile_total(t, p), move || recipe_strategy(len), move |r| Some(Case11::H(HistCase { oracle: "c11".into(), hist: elaborate(&cfg, r) }))));
        }
    }
    st
}

pub fn run(ctx: &Ctx) -> i32 {
    let mut st = ctx.run_replays(&dispatch);
    st.merge(campaigns(ctx));
    if ctx.tier == Tier::Thorough {
        st.merge(ctx.run_fuzz(20000, ctx.threads, &dispatch));
    }
    finish(
        ctx,
        st,
        "cases = graphs whose nodes are custom operations supplied through Array::op with harness closures that log every derivative invocation (node, received delta): (a) ALL DAGs with 1-2 leaves and up to 4 (quick) / 5 (thorough) operation nodes, (b) proptest-generated programs mixing custom operations with built-in ones (so custom nodes have broadcasting built-in consumers), tracked and untracked leaves, clones, drops, re-binding, several passes, (c) chains of self-products of depth 1,2,...,64/256 run in increasing depth. Oracle per pass: every custom node reachable from the root through tracked operands is logged exactly once, no unreachable node is logged, a node is logged after all its consumers, and the delta it received equals the reference adjoint (complete sum of contributions). Non-trivial = a logged node has >= 2 consuming edges (more paths than nodes); distinct by program structure.",
        &["derivative invocations of built-in operations are not observable through the public API; built-ins and Array::op nodes share one backward engine (see DESIGN.md section 11)", "integer / power-of-two data: deltas compared bitwise while below 1e15, else within the 1e-9 tolerance", "a hang maps to exit 2 (watchdog); the chains are run in increasing depth so that path-proportional work is reported as an invocation-count violation at small depth"],
        json!({}),
    )
}
