//! Comparison rules: exact (bitwise on exactly representable data) or magnitude-scaled tolerance.

use crate::exec::IS_F32;
use corgi::array::Array;

pub fn rtol() -> f64 {
    if IS_F32 {
        4e-4
    } else {
        1e-9
    }
}
pub fn atol() -> f64 {
    if IS_F32 {
        1e-5
    } else {
        1e-12
    }
}
/// Largest magnitude for which sums of "exact" data (integers, see `is_exact_value`) are exact in the build's
/// float type whatever the order of summation: 2^23 in f32 (24-bit mantissa, one bit to spare), 2^52 in f64.
pub fn exact_limit() -> f64 {
    if IS_F32 {
        8388608.0
    } else {
        4503599627370496.0
    }
}

/// returned by `diff_array` when the reference cannot bound its own rounding error: the case is discarded
pub const UNDECIDABLE: &str = "UNDECIDABLE: non-finite magnitude in the reference";

/// Absolute slack for the FORWARD value of a single operation. There the library and the reference evaluate
/// the same formula on the same operands, so the result is relatively accurate down to the subnormal range
/// (cancellation is covered by the magnitude); the slack only has to absorb subnormal rounding and, in the f32
/// build, results below f32's normal range. The general `atol` would hide a formula that loses all RELATIVE
/// accuracy in the tails (sigmoid of very negative arguments computed as 1 - p).
pub fn atol_forward() -> f64 {
    if IS_F32 {
        1e-35
    } else {
        1e-290
    }
}

pub fn close(got: f64, want: f64, mag: f64, exact: bool) -> bool {
    close_with(got, want, mag, exact, atol())
}

pub fn close_with(got: f64, want: f64, mag: f64, exact: bool, atol: f64) -> bool {
    // a magnitude that is not a number (an overflowed magnitude times a zero coefficient) bounds nothing: the
    // comparison is undecidable, which must never read as a mismatch
    if mag.is_nan() && !exact {
        return true;
    }
    if !got.is_finite() {
        return false;
    }
    if exact {
        got == want
    } else {
        (got - want).abs() <= rtol() * (mag.abs() + want.abs()) + atol
    }
}

/// first mismatch between a corgi array and expected dims/values, if any
pub fn diff_array(got: &Array, dims: &[usize], want: &[f64], mags: &[f64], exact: bool) -> Option<String> {
    diff_array_with(got, dims, want, mags, exact, atol())
}

/// `diff_array` with the tight absolute slack of single-operation forward values
pub fn diff_array_forward(got: &Array, dims: &[usize], want: &[f64], mags: &[f64], exact: bool) -> Option<String> {
    diff_array_with(got, dims, want, mags, exact, atol_forward())
}

pub fn diff_array_with(got: &Array, dims: &[usize], want: &[f64], mags: &[f64], exact: bool, atol: f64) -> Option<String> {
    if got.dimensions() != dims {
        return Some(format!("dimensions {:?}, expected {:?}", got.dimensions(), dims));
    }
    let gv = got.values();
    if gv.len() != want.len() {
        return Some(format!("{} values, expected {}", gv.len(), want.len()));
    }
    if mags.iter().any(|m| !m.is_finite()) {
        // an overflowing magnitude would make the tolerance infinite, i.e. the comparison vacuous
        return Some(UNDECIDABLE.to_string());
    }
    // the f32 build cannot represent what the (f64) reference can: values or magnitudes near f32::MAX are undecidable
    if IS_F32 && want.iter().zip(mags).any(|(w, m)| w.abs() > 1e37 || m.abs() > 1e37) {
        return Some(UNDECIDABLE.to_string());
    }
    let exact = exact && mags.iter().all(|m| m.abs() < exact_limit());
    for i in 0..want.len() {
        // where the reference says its own value is noise (the tolerance dwarfs the value: the result of a
        // cancellation fed to a function with a pole), a non-finite library value is as good an answer: undecidable
        if !exact && !(gv[i] as f64).is_finite() && rtol() * (mags[i].abs() + want[i].abs()) + atol > 1e3 * want[i].abs() && mags[i].abs() > 1e3 * want[i].abs() {
            return Some(UNDECIDABLE.to_string());
        }
        if !close_with(gv[i] as f64, want[i], mags[i], exact, atol) {
            return Some(format!(
                "element {} is {:?}, expected {:?} ({}); got {:?} expected {:?}",
                i,
                gv[i],
                want[i],
                if exact { "exact".to_string() } else { format!("tolerance {:e}", rtol() * (mags[i].abs() + want[i].abs()) + atol) },
                &gv[..gv.len().min(12)],
                &want[..want.len().min(12)]
            ));
        }
    }
    None
}
