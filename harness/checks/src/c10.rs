//! C10 Gradients accumulate additively across passes; a finished pass leaves no residue.

use crate::c01::recipe_strategy;
use crate::cmp::*;
use crate::exec::*;
use crate::histcase::{hist_key, hist_sample};
use crate::opcase::step_name;
use crate::runner::*;
use refmodel::elab::*;
use refmodel::ir::*;
use refmodel::model::*;
use serde::{Deserialize, Serialize};
use serde_json::{json, Value};
use std::collections::HashMap;

#[derive(Clone, Debug, Serialize, Deserialize)]
pub struct Case10 {
    pub hist: History,
}

type G = (Vec<usize>, Vec<f64>);

/// gradient per model node, read through any live slot of that node
fn grads_by_node(ex: &Exec, m: &RefState) -> HashMap<usize, Option<G>> {
    let mut out = HashMap::new();
    for h in m.live_handles() {
        let n = m.handle(h).node;
        if let Some(a) = ex.slots.get(h).and_then(|x| x.as_ref()) {
            out.entry(n).or_insert_with(|| a.gradient().as_ref().map(|g| (g.dimensions().to_vec(), f64s(g.values()))));
        }
    }
    out
}

/// the pass at step `k` alone: a fresh instance runs every construction step before it (no passes, no clears)
fn alone(hist: &History, k: usize) -> Result<HashMap<usize, Option<G>>, String> {
    let mut ex = Exec::new();
    let mut m = RefState::forward_only();
    for s in &hist.steps[..k] {
        match s {
            Step::Backward { .. } | Step::ClearGrad { .. } => {}
            _ => {
                m.step(s).map_err(|e| format!("{:?}", e))?;
                ex.step(s)?;
            }
        }
    }
    ex.step(&hist.steps[k])?;
    Ok(grads_by_node(&ex, &m))
}

struct Run {
    passes: usize,
    overlapping: bool,
    compared: usize,
    exact: bool,
}

impl Case10 {
    fn check(&self) -> Result<Run, (String, String)> {
        let e = |k: &str, d: String| Err((k.to_string(), d));
        let mut ex = Exec::new();
        let mut m = RefState::new(crate::histcase::dir_budget_for(&self.hist));
        // per node: the single-pass gradients since the last clear
        let mut since: HashMap<usize, Vec<G>> = HashMap::new();
        let mut run = Run { passes: 0, overlapping: false, compared: 0, exact: true };
        let mut touched_ops: Vec<Vec<usize>> = vec![];
        for (i, s) in self.hist.steps.iter().enumerate() {
            if let Step::Backward { h, seed } = s {
                let root = m.handle(*h).node;
                let ops: Vec<usize> = m.reach(root).into_iter().filter(|n| m.nodes[*n].has_graph()).collect();
                if touched_ops.iter().any(|prev| prev.iter().any(|n| ops.contains(n))) {
                    run.overlapping = true;
                }
                touched_ops.push(ops);
                if let Some(sd) = seed {
                    if !sd.iter().all(|v| is_exact_value(*v)) {
                        run.exact = false;
                    }
                }
            }
            if let Some(why) = branch_guard(&m, &ex, s) {
                return e("discard", why);
            }
            if m.step(s).is_err() {
                return e("discard", format!("step {} is not admissible", i));
            }
            if let Err(p) = ex.step(s) {
                if is_discard(&p) {
                    return e("discard", p);
                }
                // a pass that panics only because of what ran before it is a violation; one that panics alone is not judged here
                if matches!(s, Step::Backward { .. }) && alone(&self.hist, i).is_ok() {
                    return e("panic-after-history", format!("step {} ({}) panicked: {} - the same pass runs when it is executed alone on a fresh instance\nhistory: {}", i, step_name(s), p, hist_sample(&self.hist)));
                }
                return e("discard", format!("step {} panicked: {}", i, p));
            }
            if m.handles.len() != ex.slots.len() {
                return e("internal", "slot count".into());
            }
            if !m.nodes.iter().all(|n| n.exact) {
                run.exact = false;
            }
            match s {
                Step::Backward { .. } => {
                    run.passes += 1;
                    let single = match alone(&self.hist, i) {
                        Ok(g) => g,
                        Err(p) if is_discard(&p) => return e("discard", p),
                        Err(p) => return e("panic-only-alone", format!("the pass of step {} ran inside the history but panicked when run alone on a fresh instance: {}", i, p)),
                    };
                    for (n, g) in single {
                        if let Some(g) = g {
                            since.entry(n).or_default().push(g);
                        }
                    }
                }
                Step::ClearGrad { h, .. } => {
                    since.remove(&m.handle(*h).node);
                }
                _ => {}
            }
            // after every step: every live array's gradient is the sum of the single-pass gradients since its last clear
            for (n, got) in grads_by_node(&ex, &m) {
                let contribs = since.get(&n);
                let what = || format!("array (model node {}, dims {:?}, {})", n, m.nodes[n].t.dims, m.nodes[n].op.as_ref().map(|o| format!("result of {}", o.name())).unwrap_or_else(|| "leaf".into()));
                match (contribs, got) {
                    (None, None) => {}
                    (None, Some(g)) => return e("gradient-without-pass", format!("after step {} ({}): {} holds gradient {:?} although no pass since its last clear would give it one\nhistory: {}", i, step_name(s), what(), g.1, hist_sample(&self.hist))),
                    (Some(c), None) => return e("gradient-lost", format!("after step {} ({}): {} holds no gradient, but {} pass(es) since its last clear each give it one when run alone\nhistory: {}", i, step_name(s), what(), c.len(), hist_sample(&self.hist))),
                    (Some(c), Some(g)) => {
                        run.compared += 1;
                        let len = c[0].1.len();
                        if c.iter().any(|x| x.0 != c[0].0) || g.0 != c[0].0 || g.1.len() != len {
                            return e("gradient-shape", format!("after step {} ({}): {} holds a gradient of dims {:?}; alone the passes give dims {:?}\nhistory: {}", i, step_name(s), what(), g.0, c.iter().map(|x| x.0.clone()).collect::<Vec<_>>(), hist_sample(&self.hist)));
                        }
                        for j in 0..len {
                            // the same left-to-right order in which the slot accumulates
                            let mut sum = c[0].1[j];
                            let mut mag = c[0].1[j].abs();
                            for x in &c[1..] {
                                sum += x.1[j];
                                mag += x.1[j].abs();
                            }
                            let exact = run.exact && mag < exact_limit();
                            if !close(g.1[j], sum, mag, exact) {
                                return e(
                                    "not-additive",
                                    format!("after step {} ({}): gradient of {} is {:?}, but the {} pass(es) since its last clear give {:?} when each is run alone on a fresh instance (sum {:?} at element {})\nhistory: {}", i, step_name(s), what(), g.1, c.len(), c.iter().map(|x| x.1.clone()).collect::<Vec<_>>(), sum, j, hist_sample(&self.hist)),
                                );
                            }
                        }
                    }
                }
            }
        }
        Ok(run)
    }
}

impl CaseKind for Case10 {
    const KIND: &'static str = "c10";
    fn size(&self) -> usize {
        self.hist.steps.len() * 16
    }
    fn sample(&self) -> Value {
        hist_sample(&self.hist)
    }
    fn run(&self) -> Outcome {
        let key = hist_key(&self.hist);
        match self.check() {
            Ok(r) => {
                let classes = vec![format!("passes:{}", r.passes.min(9)), format!("overlapping-passes:{}", r.overlapping), format!("mode:{}", if r.exact { "exact" } else { "tolerance" })];
                Outcome::pass(r.passes >= 2 && r.overlapping && r.compared > 0, key, classes)
            }
            Err((k, d)) if k == "discard" => Outcome::discard(&d),
            Err((k, d)) if k == "internal" => Outcome::internal(d),
            Err((k, d)) => Outcome::fail(&k, k.clone(), d, key, vec![]),
        }
    }
}

pub fn cfg_for(t: Tier, exact: bool) -> GenCfg {
    use Kind::*;
    let mut cfg = GenCfg::programs(exact);
    cfg.kinds = vec![(Binary, 26), (Backward, 16), (Unary, 12), (Leaf, 7), (SumReshape, 6), (Matmul, 6), (ClearGrad, 6), (Rebind, 5), (Custom, 5), (CloneH, 4), (DropH, 5), (Flag, 5), (Conv, 2), (IfGt, 2), (Retrack, 4), (Refused, 2)];
    cfg.flag_results = true;
    cfg.max_steps = t.pick(24, 90);
    cfg.max_elems = t.pick(32, 100);
    cfg.final_backward = true;
    cfg.grad_operands = false;
    cfg.residue_probes = t.pick(2, 4);
    cfg
}

pub fn dispatch(kind: &str, v: &Value) -> Option<Outcome> {
    match kind {
        "c10" => serde_json::from_value::<Case10>(v.clone()).ok().map(|c| c.run()),
        "fan-in" => serde_json::from_value::<crate::scale::FanInCase>(v.clone()).ok().map(|c| c.run()),
        _ => None,
    }
}

pub fn campaigns(ctx: &Ctx) -> Stats {
    let mut st = Stats::default();
    let t = ctx.tier;
    {
        let fan = crate::scale::fan_in_cases("c10", t == Tier::Thorough);
        st.merge(ctx.run_indexed("one-node-consumed-up-to-70001-times", fan.len() as u64, None, |i| Some(fan[i as usize].clone())));
    }
    let (len, total) = t.pick((20usize, 100000u64), (70, 300000));
    for (name, exact) in [("exact-histories", true), ("mixed-histories", false)] {
        let cfg = cfg_for(t, exact);
        st.merge(ctx.run_prop(name, total / 2, move || recipe_strategy(len), move |r| Some(Case10 { hist: elaborate(&cfg, r) })));
    }
    for (name, p) in [("programs-with-large-dimensions", Profile::LargeDims), ("programs-with-wide-magnitudes", Profile::WideMagnitudes)] {
        let cfg = cfg_for(t, false).with_profile(p, t == Tier::Thorough, crate::exec::IS_F32);
        st.merge(ctx.run_prop(name, crate::histcase::profile_total(t, p), move || recipe_strategy(len), move |r| Some(Case10 { hist: elaborate(&cfg, r) })));
    }
    st
}

pub fn run(ctx: &Ctx) -> i32 {
    let mut st = ctx.run_replays(&dispatch);
    st.merge(campaigns(ctx));
    if ctx.tier == Tier::Thorough {
        st.merge(ctx.run_fuzz(10000, ctx.threads, &dispatch));
    }
    finish(
        ctx,
        st,
        "cases = histories over a shared pool of arrays: graph construction with all operations, backward(seed | None) on any live array (the same result again, different results sharing sub-graphs, an interior node and later a result containing it and the reverse), gradient clearing through replace_gradient / gradient_mut, clones, drops, re-binding and flag changes between passes; at the end residue probes: clear every gradient, then one more pass from each of several arrays. Metamorphic oracle (the statement itself): for each pass, a fresh instance of the construction steps runs that pass ALONE; after every step of the history each live array's gradient must equal the sum of those single-pass gradients since its last clear (presence, shape, value). Non-trivial = at least two passes whose differentiated sub-graphs share an operation node; distinct by history structure.",
        &["exact histories are compared bitwise (sums in accumulation order) while magnitudes stay below 2^22, otherwise within rtol*(sum of |contributions|)+atol", "the reference model is used for typing, node identity of clones and non-triviality only, never for expected gradients"],
        json!({}),
    )
}
