//! C03 Gradients have their array's shape; broadcast contributions are summed.

use crate::c01::recipe_strategy;
use crate::gens::*;
use crate::histcase::*;
use crate::opcase::*;
use crate::runner::*;
use crate::vals::*;
use refmodel::elab::*;
use refmodel::ir::*;
use refmodel::tensor::*;
use serde::{Deserialize, Serialize};
use serde_json::{json, Value};

const OPS: [OpKind; 4] = [OpKind::Add, OpKind::Mul, OpKind::Sub, OpKind::Div];

/// graphs in which the broadcast operand `a` is used several times
fn use_pattern(a: &[usize], b: &[usize], opi: usize, pattern: usize, passes: usize, swap: bool) -> History {
    let op = OPS[opi].clone();
    let mut steps = vec![];
    let div = opi == 3;
    let va = if div { gen_vals(3, numel(a), VKind::PosInt) } else { iota(numel(a), 1.0, 1.0) };
    let vb = if div { gen_vals(4, numel(b), VKind::PosInt) } else { iota(numel(b), -7.0, 2.0) };
    steps.push(Step::Leaf { dims: a.to_vec(), vals: va, tracked: true }); // h0
    steps.push(Step::Leaf { dims: b.to_vec(), vals: vb, tracked: pattern % 2 == 0 }); // h1
    let args = if swap { vec![1, 0] } else { vec![0, 1] };
    let ap = |op: OpKind, args: Vec<usize>| Step::Apply(ApplySpec { op, args });
    let root;
    match pattern {
        // one use
        0 => {
            steps.push(ap(op, args));
            root = 2;
        }
        // two / three separate consumers, summed
        1 | 2 => {
            let u = pattern + 1;
            for _ in 0..u {
                steps.push(ap(op.clone(), args.clone()));
            }
            let mut r = 2;
            for k in 1..u {
                steps.push(ap(OpKind::Add, vec![r, 2 + k]));
                r = 2 + u + k - 1;
            }
            root = r;
        }
        // the result is combined with the broadcast operand again: z = op(a, b); y = z + a
        3 => {
            steps.push(ap(op, args));
            steps.push(ap(OpKind::Add, vec![2, 0]));
            root = 3;
        }
        // once broadcast, once at full shape: y = op(a, b) + (a * a2)
        _ => {
            steps.push(Step::Leaf { dims: a.to_vec(), vals: iota(numel(a), 2.0, 1.0), tracked: true }); // h2
            steps.push(ap(op, args)); // h3
            steps.push(ap(OpKind::Mul, vec![0, 2])); // h4
            steps.push(ap(OpKind::Add, vec![3, 4])); // h5
            root = 5;
        }
    }
    let out = broadcast_dims(a, b).unwrap();
    for p in 0..passes {
        steps.push(Step::Backward { h: root, seed: Some(distinct_seed(numel(&out)).iter().map(|v| v + p as f64).collect()) });
    }
    History { steps }
}

#[derive(Clone, Debug, Serialize, Deserialize)]
pub enum Case3 {
    H(HistCase),
    G(GradCase),
}
impl CaseKind for Case3 {
    const KIND: &'static str = "c03-any";
    fn size(&self) -> usize {
        match self {
            Case3::H(c) => c.size(),
            Case3::G(c) => c.size(),
        }
    }
    fn sample(&self) -> Value {
        match self {
            Case3::H(c) => c.sample(),
            Case3::G(c) => c.sample(),
        }
    }
    fn run(&self) -> Outcome {
        match self {
            Case3::H(c) => c.run(),
            Case3::G(c) => c.run(),
        }
    }
}

pub fn dispatch(kind: &str, v: &Value) -> Option<Outcome> {
    match kind {
        "history" => serde_json::from_value::<HistCase>(v.clone()).ok().map(|c| c.run()),
        "grad-op" => serde_json::from_value::<GradCase>(v.clone()).ok().map(|c| c.run()),
        "c03-any" => serde_json::from_value::<Case3>(v.clone()).ok().map(|c| c.run()),
        _ => None,
    }
}

pub fn campaigns(ctx: &Ctx) -> Stats {
    let mut st = Stats::default();
    let t = ctx.tier;
    // every pair in which the first shape is really broadcast (differs from the result's shape)
    let pairs: Vec<(Vec<usize>, Vec<usize>)> = admissible_pairs(&t.pick(quick_shapes(), all_shapes(4, 3))).into_iter().filter(|(a, b)| broadcast_dims(a, b).unwrap() != *a).collect();
    let np = pairs.len() as u64;
    // (operation 4) x (pattern 5) x (passes 2) x (operand order 2)
    st.merge(ctx.run_indexed(
        "broadcast-operand-used-repeatedly",
        np * 4 * 5 * 2 * 2,
        Some("every ordered shape pair of rank<=3 (quick) / <=4 (thorough), sizes 1..3, whose first shape is really broadcast; add, mul, sub, div; the broadcast operand used once, twice, three times, again after the operation, and once broadcast + once at full shape; one or two passes; either operand order; exact integer data, non-uniform seeds"),
        |i| {
            let swap = i % 2 == 1;
            let passes = 1 + ((i / 2) % 2) as usize;
            let pattern = ((i / 4) % 5) as usize;
            let opi = ((i / 20) % 4) as usize;
            let (a, b) = &pairs[(i / 80) as usize];
            Some(Case3::H(HistCase { oracle: "c03".into(), hist: use_pattern(a, b, opi, pattern, passes, swap) }))
        },
    ));
    // matmul and conv whose operands are broadcast, used twice
    let cfgs = matmul_cfgs(&crate::c02::mm_sizes(Tier::Quick), true, 2, 3);
    st.merge(ctx.run_indexed("matmul-broadcast-used-twice", cfgs.len() as u64 * 2, None, |i| {
        let cfg = &cfgs[(i / 2) as usize];
        let tr = if i % 2 == 0 { [true, true, true] } else { [true, false, true] };
        let leaves = cfg.leaves(tr);
        let out = refmodel::ops::matmul(&T::from_f64(&cfg.a, &leaves[0].vals), cfg.ta, &T::from_f64(&cfg.b, &leaves[1].vals), cfg.tb, None).ok()?;
        Some(Case3::G(GradCase { op: cfg.op(), leaves, seed: Some(distinct_seed(out.numel())), uses: 2, passes: 1, same_operand: false, detached_clone: 0, view_of_first: None, swap_operands: false }))
    }));
    // arbitrary programs: every stored gradient (leaves and operation results) has its array's shape and value
    let (len, total) = t.pick((12usize, 120000u64), (32, 600000));
    let mut cfg = GenCfg::programs(true);
    cfg.max_steps = t.pick(14, 40);
    cfg.kinds.push((Kind::Backward, 6));
    let cfg2 = cfg.clone();
    st.merge(ctx.run_prop("programs-all-stored-gradients", total, move || recipe_strategy(len), move |r| Some(Case3::H(HistCase { oracle: "c03".into(), hist: elaborate(&cfg2, r) }))));
    {
        let va = view_alias_cases();
        st.merge(ctx.run_indexed("operand-is-a-view-of-the-other", va.len() as u64, None, |i| Some(Case3::H(HistCase { oracle: "c03".into(), hist: va[i as usize].history() }))));
    }
    for (name, p) in [("programs-with-large-dimensions", Profile::LargeDims), ("programs-with-wide-magnitudes", Profile::WideMagnitudes)] {
        let mut cfg = GenCfg::programs(false);
        cfg.max_steps = t.pick(14, 30);
        cfg.kinds.push((Kind::Backward, 6));
        let cfg = cfg.with_profile(p, t == Tier::Thorough, crate::exec::IS_F32);
        st.merge(ctx.run_prop(name, profile_total(t, p), move || recipe_strategy(12), move |r| Some(Case3::H(HistCase { oracle: "c03".into(), hist: elaborate(&cfg, r) }))));
    }
    st
}

pub fn run(ctx: &Ctx) -> i32 {
    let mut st = ctx.run_replays(&dispatch);
    st.merge(campaigns(ctx));
    if ctx.tier == Tier::Thorough {
        st.merge(ctx.run_fuzz(20000, ctx.threads, &dispatch));
    }
    finish(
        ctx,
        st,
        "cases = (a) graphs in which a really-broadcast operand is used u in {1,2,3} times by separate consumers, again after the operation, or once broadcast and once at full shape, over every small broadcast pair x {add,mul,sub,div} x 1-2 passes; (b) every matmul configuration with broadcast leading dimensions / additive term built twice and summed; (c) proptest-generated exact programs with several passes. Oracle: after every pass each stored gradient (leaves and operation results) has exactly its array's dimensions and equals the reference adjoint = output adjoint summed over the broadcast positions (integer data, bitwise). Non-trivial = at least one gradient compared after a pass; distinct by program structure and shapes.",
        &["integer data through exact operations (division by small positive integers falls back to the 1e-9 tolerance)", "gradients of operation results are compared when the reference can attribute directions to them (direction budget 16384)"],
        json!({}),
    )
}
