//! Known findings: read-only at run time. Open entries exclude (and count) cases whose failure
//! signature they list; fixed entries suppress nothing.

use serde::Deserialize;

#[derive(Clone, Debug, Deserialize)]
pub struct Entry {
    pub id: String,
    pub property: String,
    /// "open" or "fixed"
    pub status: String,
    /// exact failure signature, or a prefix ending in '*'
    pub signature: String,
    pub what: String,
    #[serde(default)]
    pub commit: Option<String>,
    #[serde(default)]
    pub line: Option<String>,
}

#[derive(Clone, Debug, Deserialize, Default)]
pub struct Known {
    #[serde(default)]
    pub findings: Vec<Entry>,
}

impl Known {
    pub fn load(root: &str) -> Known {
        let p = format!("{}/known_findings.json", root);
        match std::fs::read_to_string(&p) {
            Ok(t) => serde_json::from_str(&t).unwrap_or_else(|e| {
                eprintln!("INTERNAL: cannot parse {}: {}", p, e);
                std::process::exit(2)
            }),
            Err(_) => Known::default(),
        }
    }
    pub fn matches_open(&self, property: &str, signature: &str) -> Option<String> {
        self.findings
            .iter()
            .find(|e| {
                e.status == "open"
                    && e.property == property
                    && (e.signature == signature || (e.signature.ends_with('*') && signature.starts_with(&e.signature[..e.signature.len() - 1])))
            })
            .map(|e| e.id.clone())
    }
    pub fn describe(&self, id: &str) -> String {
        self.findings.iter().find(|e| e.id == id).map(|e| format!("[{}] {} (signature {})", e.id, e.what, e.signature)).unwrap_or_default()
    }
}
