//! History cases: a typed history plus the name of the oracle set that judges it.

use crate::interp::*;
use crate::runner::*;
use refmodel::ir::*;
use serde::{Deserialize, Serialize};
use serde_json::{json, Value};

#[derive(Clone, Debug, Serialize, Deserialize)]
pub struct HistCase {
    /// which property's oracles judge the history: "c01", "c03", "c08", "c09"
    pub oracle: String,
    pub hist: History,
}

pub fn oracles_for(name: &str) -> Oracles {
    match name {
        "c01" => Oracles { leaf_grads: true, panics_fail: true, ..Default::default() },
        "c03" => Oracles { leaf_grads: true, inner_grads: true, grad_shapes: true, panics_fail: true, ..Default::default() },
        "c08" => Oracles { immutable: true, ..Default::default() },
        "c09" => Oracles { grad_absence: true, grad_presence: true, flags: true, result_tracking: true, ..Default::default() },
        "c18" => Oracles { ownership: true, ..Default::default() },
        "c11" => Oracles { custom_log: true, panics_fail: true, ..Default::default() },
        "c19" => Oracles { forward: true, leaf_grads: true, grad_shapes: true, result_tracking: true, panics_fail: true, ..Default::default() },
        _ => Oracles::default(),
    }
}

pub fn hist_key(h: &History) -> u64 {
    let mut k = KeyHasher::new("hist");
    for s in &h.steps {
        match s {
            Step::Leaf { dims, tracked, .. } => {
                k.s("leaf").us(dims).b(*tracked);
            }
            Step::Apply(a) => {
                k.s(&format!("{:?}", a.op)).us(&a.args);
            }
            Step::Rebind { target, spec } => {
                k.s("rebind").u(*target as u64).s(&format!("{:?}", spec.op)).us(&spec.args);
            }
            Step::IfGt { cond, target, then_, else_, .. } => {
                k.s("ifgt").u(*cond as u64).u(*target as u64).s(&format!("{:?}{:?}", then_, else_));
            }
            Step::Backward { h, seed } => {
                k.s("bw").u(*h as u64).b(seed.is_some());
            }
            other => {
                k.s(&format!("{:?}", other));
            }
        }
    }
    k.finish()
}

pub fn hist_sample(h: &History) -> Value {
    let steps: Vec<String> = h
        .steps
        .iter()
        .map(|s| match s {
            Step::Leaf { dims, tracked, .. } => format!("leaf{:?}{}", dims, if *tracked { "T" } else { "u" }),
            Step::Apply(a) => format!("{:?}{:?}", a.op, a.args),
            Step::Rebind { target, spec } => format!("h{}={:?}{:?}", target, spec.op, spec.args),
            Step::IfGt { cond, elem, thr, target, then_, .. } => format!("if h{}[{}]>{} h{}={:?}{:?}", cond, elem, thr, target, then_.op, then_.args),
            Step::Backward { h, seed } => format!("backward(h{}, {})", h, if seed.is_some() { "seed" } else { "None" }),
            Step::Clone { h } => format!("clone(h{})", h),
            Step::Drop { h } => format!("drop(h{})", h),
            Step::Flag { h, how } => format!("{:?}(h{})", how, h),
            Step::ReadGrad { h } => format!("read_grad(h{})", h),
            Step::ClearGrad { h, .. } => format!("clear_grad(h{})", h),
            Step::Update { lr, params } => format!("update(lr={}, {:?})", lr, params),
            Step::ProbeSole { h } => format!("probe_sole_owner(h{})", h),
            Step::Copy { h } => format!("copy(h{})", h),
            Step::RefusedOp { h } => format!("refused_custom_op(h{})", h),
        })
        .collect();
    json!(steps)
}

impl CaseKind for HistCase {
    const KIND: &'static str = "history";
    fn size(&self) -> usize {
        self.hist.steps.len() * 16
            + self
                .hist
                .steps
                .iter()
                .map(|s| match s {
                    Step::Leaf { vals, .. } => vals.len(),
                    _ => 0,
                })
                .sum::<usize>()
    }
    fn sample(&self) -> Value {
        hist_sample(&self.hist)
    }
    fn run(&self) -> Outcome {
        let key = hist_key(&self.hist);
        let it = Interp::new(oracles_for(&self.oracle), dir_budget_for(&self.hist));
        let (out, it) = it.run(&self.hist);
        let classes_of = |st: &HStats| {
            let mut c: Vec<String> = self.hist.ops().iter().map(|o| format!("op:{}", o.name())).collect();
            for s in &self.hist.steps {
                match s {
                    Step::Leaf { .. } | Step::Apply(_) => {}
                    other => c.push(format!("step:{}", crate::opcase::step_name(other))),
                }
            }
            c.sort();
            c.dedup();
            c.push(format!("passes:{}", st.passes.min(4)));
            if st.multi_path {
                c.push("feature:multi-path".into())
            }
            if st.broadcast_and_sharing {
                c.push("feature:sharing+broadcast".into())
            }
            if st.branch_taken {
                c.push("feature:data-dependent-branch".into())
            }
            if st.exact {
                c.push("mode:exact".into())
            } else {
                c.push("mode:tolerance".into())
            }
            c.push(format!("fanout:{}", st.max_fanout.min(4)));
            if st.probes > 0 {
                c.push(format!("probes:{}", st.probes.min(6)));
            }
            c
        };
        let _ = &it;
        match out {
            HOutcome::Discard(w) => Outcome::discard(&w),
            HOutcome::Internal(m) => Outcome::internal(m),
            HOutcome::Fail(f, st) => Outcome::fail(&f.kind, format!("{}:{}", f.kind, f.at), f.detail, key, classes_of(&st)),
            HOutcome::Ok(st) => {
                let nontrivial = match self.oracle.as_str() {
                    "c01" | "c19" => st.passes >= 1 && st.grads_compared >= 1 && (st.multi_path || st.broadcast_and_sharing || st.branch_taken),
                    "c03" => st.passes >= 1 && st.grads_compared >= 1,
                    "c08" => st.snapshots_compared > 0 && (st.passes >= 1),
                    "c09" => st.passes >= 1,
                    "c18" => st.probes_after_pass >= 1,
                    "c11" => st.log_entries_checked >= 1 && st.logged_shared_node,
                    _ => st.passes >= 1,
                };
                Outcome::pass(nontrivial, key, classes_of(&st))
            }
        }
    }
}

/// number of cases of a generator-profile campaign (large shapes are expensive in the reference)
pub fn profile_total(t: Tier, p: refmodel::elab::Profile) -> u64 {
    match p {
        refmodel::elab::Profile::LargeDims => t.pick(6000, 100000),
        refmodel::elab::Profile::WideMagnitudes => t.pick(12000, 200000),
    }
}

/// Tangent-direction budget of the reference for a history: histories with large arrays give directions to
/// leaves only (operation results then hold "unknown" gradients, as when the budget runs out), which keeps the
/// dense forward-mode reference affordable at dimensions of 64 .. 130.
pub fn dir_budget_for(hist: &History) -> usize {
    let biggest = hist.steps.iter().map(|s| if let Step::Leaf { vals, .. } = s { vals.len() } else { 0 }).max().unwrap_or(0);
    if biggest > 150 {
        0
    } else {
        1 << 14
    }
}
