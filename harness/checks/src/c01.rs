//! C01 Reverse-mode gradients are exact on arbitrary computation graphs.

use crate::histcase::*;
use crate::runner::*;
use proptest::prelude::*;
use refmodel::elab::*;
use refmodel::ir::*;
use serde_json::{json, Value};

pub fn recipe_strategy(max_len: usize) -> BoxedStrategy<Vec<Instr>> {
    prop::collection::vec(any::<[u8; 8]>(), 1..=max_len).boxed()
}

/// structured deep programs: chains with re-binding, self-sums, self-products, README-style loops
pub fn deep_program(pattern: usize, depth: usize, width: usize) -> History {
    use OpKind::*;
    let mut steps = vec![];
    let w = width.max(1);
    let v = |s: f64, k: f64| (0..w).map(|i| s + k * i as f64).collect::<Vec<f64>>();
    steps.push(Step::Leaf { dims: vec![w], vals: v(0.5, 0.125), tracked: true }); // h0 = a
    steps.push(Step::Leaf { dims: vec![w], vals: v(0.75, -0.125), tracked: true }); // h1 = b
    steps.push(Step::Leaf { dims: vec![w], vals: v(0.25, 0.25), tracked: true }); // h2 = c (re-bound)
    let mut next = 3;
    for d in 0..depth {
        match pattern {
            // c = &c + &(&a * &b); if c[0] > thr { c = &c * &a }
            0 => {
                steps.push(Step::Apply(ApplySpec { op: Mul, args: vec![0, 1] }));
                let t = next;
                next += 1;
                steps.push(Step::Rebind { target: 2, spec: ApplySpec { op: Add, args: vec![2, t] } });
                steps.push(Step::Drop { h: t });
                steps.push(Step::IfGt { cond: 2, elem: 0, thr: 1.5 + 0.37 * (d % 5) as f64, target: 2, then_: ApplySpec { op: Mul, args: vec![2, 0] }, else_: None });
            }
            // c = (&c + &c) * 0.5 : every node reached by two paths, 2^depth paths in total
            1 => {
                steps.push(Step::Rebind { target: 2, spec: ApplySpec { op: Add, args: vec![2, 2] } });
                steps.push(Step::Rebind { target: 2, spec: ApplySpec { op: ScaleR(0.5), args: vec![2] } });
            }
            // c = sigmoid(&c * &c): self-products
            2 => {
                steps.push(Step::Rebind { target: 2, spec: ApplySpec { op: Mul, args: vec![2, 2] } });
                steps.push(Step::Rebind { target: 2, spec: ApplySpec { op: Sigmoid, args: vec![2] } });
            }
            // c = &c * &a + &c * &b (diamond with two leaves), kept bounded by the factors
            _ => {
                steps.push(Step::Apply(ApplySpec { op: Mul, args: vec![2, 0] }));
                steps.push(Step::Apply(ApplySpec { op: Mul, args: vec![2, 1] }));
                steps.push(Step::Rebind { target: 2, spec: ApplySpec { op: Add, args: vec![next, next + 1] } });
                steps.push(Step::Drop { h: next });
                steps.push(Step::Drop { h: next + 1 });
                next += 2;
            }
        }
    }
    steps.push(Step::Backward { h: 2, seed: if pattern % 2 == 0 { None } else { Some(v(1.0, -0.5)) } });
    History { steps }
}

pub fn dispatch(kind: &str, v: &Value) -> Option<Outcome> {
    match kind {
        "history" => serde_json::from_value::<HistCase>(v.clone()).ok().map(|c| c.run()),
        "fan-in" => serde_json::from_value::<crate::scale::FanInCase>(v.clone()).ok().map(|c| c.run()),
        "model-route" => serde_json::from_value::<crate::modelroute::ModelRouteCase>(v.clone()).ok().map(|c| c.run()),
        _ => None,
    }
}

pub fn campaigns(ctx: &Ctx) -> Stats {
    let mut st = Stats::default();
    let t = ctx.tier;
    let (len, total) = t.pick((12usize, 300000u64), (40, 1500000));
    for (name, exact) in [("exact-programs", true), ("mixed-programs", false)] {
        let mut cfg = GenCfg::programs(exact);
        // several passes per program (on the same result again, on other results): gradients accumulate
        cfg.kinds.push((Kind::Backward, 5));
        cfg.max_steps = t.pick(16, 48);
        cfg.max_elems = t.pick(64, 400);
        cfg.max_size = t.pick(3, 5);
        let cfg2 = cfg.clone();
        st.merge(ctx.run_prop(name, total / 2, move || recipe_strategy(len), move |r| Some(HistCase { oracle: "c01".into(), hist: elaborate(&cfg2, r) })));
    }
    // fewer steps, larger dimensions
    {
        let mut cfg = GenCfg::programs(false);
        cfg.max_steps = t.pick(8, 14);
        cfg.max_size = t.pick(7, 11);
        cfg.max_rank = 3;
        cfg.max_elems = t.pick(400, 1400);
        cfg.dir_budget = 6000;
        let cfg2 = cfg.clone();
        st.merge(ctx.run_prop("wide-programs", total / 8, move || recipe_strategy(8), move |r| Some(HistCase { oracle: "c01".into(), hist: elaborate(&cfg2, r) })));
    }
    // dimensions around block lengths (16..130) and leaves / seeds of very different magnitudes
    for (name, p) in [("programs-with-large-dimensions", Profile::LargeDims), ("programs-with-wide-magnitudes", Profile::WideMagnitudes)] {
        let mut cfg = GenCfg::programs(false);
        cfg.kinds.push((Kind::Backward, 5));
        cfg.max_steps = t.pick(14, 30);
        let cfg = cfg.with_profile(p, t == Tier::Thorough, crate::exec::IS_F32);
        st.merge(ctx.run_prop(name, profile_total(t, p), move || recipe_strategy(12), move |r| Some(HistCase { oracle: "c01".into(), hist: elaborate(&cfg, r) })));
    }
    // programs that go through Model (tracked inputs and targets, targets that are results themselves)
    {
        let rc = crate::modelroute::route_cases("c01", ctx.seed, t == Tier::Thorough);
        st.merge(ctx.run_indexed("through-model-vs-by-hand", rc.len() as u64, None, |i| Some(rc[i as usize].clone())));
    }
    {
        let va = crate::gens::view_alias_cases();
        st.merge(ctx.run_indexed("operand-is-a-view-of-the-other", va.len() as u64, None, |i| Some(HistCase { oracle: "c01".into(), hist: va[i as usize].history() })));
    }
    {
        let fan = crate::scale::fan_in_cases("c01", t == Tier::Thorough);
        st.merge(ctx.run_indexed("one-node-consumed-up-to-70001-times", fan.len() as u64, None, |i| Some(fan[i as usize].clone())));
    }
    let depths: Vec<usize> = t.pick(vec![1, 2, 3, 5, 8, 13, 21, 34, 64, 130, 270, 400], vec![1, 2, 3, 5, 8, 13, 21, 34, 64, 128, 256, 400, 700, 1000]);
    let nd = depths.len() as u64;
    st.merge(ctx.run_indexed("deep-chains", nd * 4 * 3, None, |i| {
        let depth = depths[(i % nd) as usize];
        let pattern = ((i / nd) % 4) as usize;
        let width = [1, 2, 4][(i / nd / 4) as usize];
        Some(HistCase { oracle: "c01".into(), hist: deep_program(pattern, depth, width) })
    }));
    st
}

pub fn run(ctx: &Ctx) -> i32 {
    let mut st = ctx.run_replays(&dispatch);
    st.merge(campaigns(ctx));
    if ctx.tier == Tier::Thorough {
        st.merge(ctx.run_fuzz(30000, ctx.threads, &dispatch));
    }
    finish(
        ctx,
        st,
        "cases = programs elaborated from proptest-generated recipes: 1-4 leaves (tracked and untracked), up to 16 (quick) / 48 (thorough) steps over all public differentiable operations and custom operations through Array::op, with fan-out, diamonds, self-products (x*x, matmul(x, x^T)), re-binding, value-dependent branches (IfGt), clones and drops, broadcasting combined with sharing, then backward(None | seed); plus structured deep chains (README loop, self-sum, self-product, two-leaf diamond) of depth up to 64 / 256. Oracle: global forward-mode dual numbers (no path counting) - every tracked leaf must hold a gradient of its shape equal to the seed-weighted sum of partial derivatives. Non-trivial = some node reaches the root by >= 2 distinct tracked paths, or sharing and broadcasting occur together, or a data-dependent branch was taken; distinct by program structure (operations, operand wiring, shapes, tracked flags, seed kind).",
        &[
            "exact campaign: integer data through exact operations, compared bitwise while magnitudes stay below 2^22; otherwise |got-ref| <= rtol*(|ref|+magnitude)+atol, rtol 1e-9 (f64)",
            "forward values are not judged here (C04-C07); a case where corgi and the reference take different branches is discarded and counted",
            "an operand untracked when used is a constant (stop-gradient) in the reference",
            "runs on 512 MB thread stacks so recursion depth is not what is being tested",
        ],
        json!({}),
    )
}
