//! C04 Element-wise operations follow right-aligned broadcasting, or refuse.

use crate::opcase::*;
use crate::runner::*;
use crate::vals::*;
use proptest::prelude::*;
use refmodel::ir::OpKind;
use refmodel::tensor::numel;
use serde_json::{json, Value};

const OPS: [&str; 8] = ["add", "sub", "mul", "div", "axpy(2)", "axpy(0)", "axpy(1)", "axpy(-0.5)"];
const NOPS: u64 = 8;

fn op_of(i: usize) -> OpKind {
    match i {
        0 => OpKind::Add,
        1 => OpKind::Sub,
        2 => OpKind::Mul,
        3 => OpKind::Div,
        4 => OpKind::Axpy(2.0),
        5 => OpKind::Axpy(0.0),
        6 => OpKind::Axpy(1.0),
        _ => OpKind::Axpy(-0.5),
    }
}

/// pairing-distinct exact data: every pairing of an element of a with an element of b gives a
/// different exactly representable result, so reading the wrong element is always visible
fn exact_case(opi: usize, a: &[usize], b: &[usize]) -> FwdCase {
    let (na, nb) = (numel(a), numel(b));
    let (va, vb) = match opi {
        2 | 3 => (odds(na), pow2s(nb)),
        _ => (iota(na, 2.0, 2.0), iota(nb, 512.0, 512.0)),
    };
    FwdCase {
        op: op_of(opi),
        leaves: vec![LeafSpec { dims: a.to_vec(), vals: va, tracked: false }, LeafSpec { dims: b.to_vec(), vals: vb, tracked: false }],
        force_exact: Some(true),
    }
}

#[derive(Clone, Debug)]
struct PairRecipe {
    a: Vec<usize>,
    mods: Vec<u8>,
    extra: Vec<usize>,
    rank_b: usize,
    opi: usize,
    swap: bool,
    vseed: u64,
}

fn derive_b(r: &PairRecipe) -> Vec<usize> {
    let mut b = vec![];
    let ra = r.a.len();
    for i in 0..r.rank_b {
        // position counted from the right
        let pos = r.rank_b - 1 - i;
        if pos >= ra {
            b.push(r.extra[i % r.extra.len()]);
        } else {
            let ad = r.a[ra - 1 - pos];
            let m = r.mods[pos % r.mods.len()];
            b.push(match m % 8 {
                0 | 1 | 2 => ad,
                3 | 4 => 1,
                5 | 6 => {
                    if ad == 1 {
                        r.extra[pos % r.extra.len()]
                    } else {
                        ad
                    }
                }
                _ => ad % 8 + 1, // usually incompatible
            });
        }
    }
    b
}

fn random_case(r: &PairRecipe, max_elems: usize) -> Option<FwdCase> {
    let b = derive_b(r);
    let (a, b) = if r.swap { (b, r.a.clone()) } else { (r.a.clone(), b) };
    if numel(&a) > max_elems || numel(&b) > max_elems {
        return None;
    }
    if let Some(d) = refmodel::tensor::broadcast_dims(&a, &b) {
        if numel(&d) > max_elems * 8 {
            return None;
        }
    }
    let va = gen_vals(r.vseed, numel(&a), VKind::Signed);
    let vb = gen_vals(r.vseed ^ 77, numel(&b), VKind::Signed);
    let op = if r.opi < 8 { op_of(r.opi) } else { OpKind::Axpy(((r.vseed >> 20) % 65) as f64 / 8.0 - 4.0) };
    Some(FwdCase { op, leaves: vec![LeafSpec { dims: a, vals: va, tracked: false }, LeafSpec { dims: b, vals: vb, tracked: false }], force_exact: None })
}

pub fn dispatch(kind: &str, v: &Value) -> Option<Outcome> {
    match kind {
        "forward-op" => serde_json::from_value::<FwdCase>(v.clone()).ok().map(|c| c.run()),
        _ => None,
    }
}

pub fn campaigns(ctx: &Ctx) -> Stats {
    let mut st = Stats::default();
    let shapes = all_shapes(4, 3);
    let ns = shapes.len() as u64;
    st.merge(ctx.run_indexed(
        "exhaustive-pairs-rank1..4-size1..3",
        ns * ns * NOPS,
        Some("all 120x120 ordered shape pairs of rank 1..4 with sizes 1..3, for add, sub, mul, div and axpy with alpha in {2, 0, 1, -0.5}; exact pairing-distinct data"),
        |i| {
            let opi = (i % NOPS) as usize;
            let p = i / NOPS;
            Some(exact_case(opi, &shapes[(p / ns) as usize], &shapes[(p % ns) as usize]))
        },
    ));
    let (max_rank, max_size, total, max_elems) = ctx.tier.pick((5usize, 8usize, 40000u64, 600usize), (5, 11, 400000, 2048));
    let strat = move || {
        (
            prop::collection::vec(1..=max_size, 1..=max_rank),
            prop::collection::vec(any::<u8>(), max_rank),
            prop::collection::vec(1..=max_size, max_rank),
            1..=max_rank,
            0..12usize,
            any::<bool>(),
            any::<u64>(),
        )
            .prop_map(|(a, mods, extra, rank_b, opi, swap, vseed)| PairRecipe { a, mods, extra, rank_b, opi, swap, vseed })
            .boxed()
    };
    st.merge(ctx.run_prop("random-pairs", total, strat, move |r| random_case(r, max_elems)));
    st
}

pub fn run(ctx: &Ctx) -> i32 {
    let mut st = ctx.run_replays(&dispatch);
    st.merge(campaigns(ctx));
    if ctx.tier == Tier::Thorough {
        st.merge(ctx.run_fuzz(30000, ctx.threads, &dispatch));
    }
    finish(
        ctx,
        st,
        "cases = (operation in {add,sub,mul,div,axpy}) x (ordered pair of operand shapes): all pairs of rank 1..4 with sizes 1..3 enumerated, rank<=5 sizes<=6 (quick) / <=8 (thorough) sampled with proptest; admissible pairs must return the pairwise-maximum dimensions and the reference broadcast values, inadmissible pairs must panic. Non-trivial = the pair is admissible with differing shapes (a real broadcast) or inadmissible (a refusal is demanded); distinct by (operation, both shapes).",
        &[
            "enumerated block: data chosen so every (a-element, b-element) pairing gives a distinct exactly representable result; compared bitwise",
            "sampled block: magnitudes in [0.25, 4], compared with |got-ref| <= rtol*(|ref|+mag)+atol (rtol 1e-9 f64)",
            "a panic of any kind counts as refusal",
        ],
        json!({"operations": OPS}),
    )
}
