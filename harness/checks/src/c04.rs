//! C04 Element-wise operations follow right-aligned broadcasting, or refuse.

use crate::opcase::*;
use crate::runner::*;
use crate::vals::*;
use proptest::prelude::*;
use refmodel::ir::OpKind;
use refmodel::tensor::{numel, shapes_with_numel};
use serde_json::{json, Value};

const OPS: [&str; 8] = ["add", "sub", "mul", "div", "axpy(2)", "axpy(0)", "axpy(1)", "axpy(-0.5)"];
const NOPS: u64 = 8;

/// k times the smallest positive normal number of the build's float type (k < 1: a subnormal)
fn tiny_of(k: f64) -> f64 {
    k * if crate::exec::IS_F32 { f32::MIN_POSITIVE as f64 } else { f64::MIN_POSITIVE }
}

fn op_of(i: usize) -> OpKind {
    match i {
        0 => OpKind::Add,
        1 => OpKind::Sub,
        2 => OpKind::Mul,
        3 => OpKind::Div,
        4 => OpKind::Axpy(2.0),
        5 => OpKind::Axpy(0.0),
        6 => OpKind::Axpy(1.0),
        _ => OpKind::Axpy(-0.5),
    }
}

/// pairing-distinct exact data: every pairing of an element of a with an element of b gives a
/// different exactly representable result, so reading the wrong element is always visible
fn exact_case(opi: usize, a: &[usize], b: &[usize]) -> FwdCase {
    let (na, nb) = (numel(a), numel(b));
    let (va, vb) = match opi {
        2 | 3 => (odds(na), pow2s(nb)),
        _ => (iota(na, 2.0, 2.0), iota(nb, 512.0, 512.0)),
    };
    FwdCase {
        op: op_of(opi),
        leaves: vec![LeafSpec { dims: a.to_vec(), vals: va, tracked: false }, LeafSpec { dims: b.to_vec(), vals: vb, tracked: false }],
        force_exact: Some(true),
        second_is_view_of_first: None,
    }
}

#[derive(Clone, Debug)]
struct PairRecipe {
    a: Vec<usize>,
    mods: Vec<u8>,
    extra: Vec<usize>,
    rank_b: usize,
    opi: usize,
    swap: bool,
    vseed: u64,
}

fn derive_b(r: &PairRecipe) -> Vec<usize> {
    let mut b = vec![];
    let ra = r.a.len();
    for i in 0..r.rank_b {
        // position counted from the right
        let pos = r.rank_b - 1 - i;
        if pos >= ra {
            b.push(r.extra[i % r.extra.len()]);
        } else {
            let ad = r.a[ra - 1 - pos];
            let m = r.mods[pos % r.mods.len()];
            b.push(match m % 8 {
                0 | 1 | 2 => ad,
                3 | 4 => 1,
                5 | 6 => {
                    if ad == 1 {
                        r.extra[pos % r.extra.len()]
                    } else {
                        ad
                    }
                }
                _ => ad % 8 + 1, // usually incompatible
            });
        }
    }
    b
}

fn random_case(r: &PairRecipe, max_elems: usize) -> Option<FwdCase> {
    let b = derive_b(r);
    let (a, b) = if r.swap { (b, r.a.clone()) } else { (r.a.clone(), b) };
    if numel(&a) > max_elems || numel(&b) > max_elems {
        return None;
    }
    if let Some(d) = refmodel::tensor::broadcast_dims(&a, &b) {
        if numel(&d) > max_elems * 8 {
            return None;
        }
    }
    let va = gen_vals(r.vseed, numel(&a), VKind::Signed);
    let vb = gen_vals(r.vseed ^ 77, numel(&b), VKind::Signed);
    let op = if r.opi < 8 { op_of(r.opi) } else { OpKind::Axpy(((r.vseed >> 20) % 65) as f64 / 8.0 - 4.0) };
    Some(FwdCase { op, leaves: vec![LeafSpec { dims: a, vals: va, tracked: false }, LeafSpec { dims: b, vals: vb, tracked: false }], force_exact: None, second_is_view_of_first: None })
}

pub fn dispatch(kind: &str, v: &Value) -> Option<Outcome> {
    match kind {
        "forward-op" => serde_json::from_value::<FwdCase>(v.clone()).ok().map(|c| c.run()),
        "forward-op-reuse-sequence" => serde_json::from_value::<ReuseSeqCase>(v.clone()).ok().map(|c| c.run()),
        _ => None,
    }
}

pub fn campaigns(ctx: &Ctx) -> Stats {
    let mut st = Stats::default();
    let shapes = all_shapes(4, 3);
    let ns = shapes.len() as u64;
    st.merge(ctx.run_indexed(
        "exhaustive-pairs-rank1..4-size1..3",
        ns * ns * NOPS,
        Some("all 120x120 ordered shape pairs of rank 1..4 with sizes 1..3, for add, sub, mul, div and axpy with alpha in {2, 0, 1, -0.5}; exact pairing-distinct data"),
        |i| {
            let opi = (i % NOPS) as usize;
            let p = i / NOPS;
            Some(exact_case(opi, &shapes[(p / ns) as usize], &shapes[(p % ns) as usize]))
        },
    ));
    // forward values and refusals do not depend on which operands are tracked
    st.merge(ctx.run_indexed("exhaustive-pairs-with-tracked-operands", ns * ns * NOPS, Some("the same 120x120x8 block with operand a, operand b or both tracked (cycling)"), |i| {
        let opi = (i % NOPS) as usize;
        let p = i / NOPS;
        let mut c = exact_case(opi, &shapes[(p / ns) as usize], &shapes[(p % ns) as usize]);
        let sub = 1 + (i % 3);
        c.leaves[0].tracked = sub & 1 == 1;
        c.leaves[1].tracked = sub & 2 == 2;
        Some(c)
    }));
    // pairs whose dimensions divide each other without being equal or 1 must be refused as well
    {
        let mut bad: Vec<(Vec<usize>, Vec<usize>)> = vec![];
        for m in 2..=4usize {
            for k in 2..=3usize {
                let n = m * k;
                bad.extend([(vec![m], vec![n]), (vec![n], vec![m]), (vec![2, m], vec![n]), (vec![n], vec![2, m]), (vec![2, n], vec![m]), (vec![m, 3], vec![n, 3]), (vec![n, 3], vec![m, 3]), (vec![m, 3], vec![n, 1, 3]), (vec![3, m], vec![3, n]), (vec![2, 3, n], vec![3, m])]);
            }
        }
        let nbad = bad.len() as u64;
        st.merge(ctx.run_indexed("refused-divisible-dimensions", nbad * NOPS, None, |i| Some(exact_case((i % NOPS) as usize, &bad[(i / NOPS) as usize].0, &bad[(i / NOPS) as usize].1))));
    }
    // the second operand is a reshaped VIEW of the first (shared storage, other dimensions): same rules apply
    let mut views: Vec<(Vec<usize>, Vec<usize>)> = vec![];
    for a in &shapes {
        for b in shapes_with_numel(numel(a)) {
            if b.iter().all(|d| *d <= 4) {
                views.push((a.clone(), b));
            }
        }
    }
    let nv = views.len() as u64;
    st.merge(ctx.run_indexed("operands-sharing-storage", nv * NOPS, Some("for every shape a of rank 1..4 / sizes 1..3 and every shape b with the same element count: op(a, a.reshape(b)) for all 8 operations - the operands share one buffer"), |i| {
        let (a, b) = &views[(i / NOPS) as usize];
        let mut c = exact_case((i % NOPS) as usize, a, b);
        c.leaves[0].vals = if matches!(i % NOPS, 2 | 3) { pow2s(numel(a)) } else { iota(numel(a), 2.0, 2.0) };
        c.leaves[1].vals = c.leaves[0].vals.clone();
        c.second_is_view_of_first = Some(b.clone());
        Some(c)
    }));
    // ONE operand (or a clone of it) against two or three different partners, one call after the other: a result must
    // not depend on what the same object was broadcast against before (offset or index tables remembered per array)
    st.merge(ctx.run_indexed("reused-operand-against-several-partners", ctx.tier.pick(240_000, 1_500_000), None, |i| {
        let z = mix(i ^ 0xC04A ^ ctx.seed.wrapping_mul(0x9E3779B1));
        let a = shapes[(z % ns) as usize].clone();
        let partner = |mut y: u64| -> Vec<usize> {
            let rb = 1 + (y % 4) as usize;
            y /= 4;
            let mut b = vec![];
            for j in 0..rb {
                let d = if j < a.len() { a[a.len() - 1 - j] } else { 1 };
                b.push(if d == 1 { 1 + (y % 3) as usize } else if y % 3 == 0 { 1 } else { d });
                y /= 3;
            }
            b.reverse();
            b
        };
        let ncalls = 2 + ((z >> 40) % 2) as usize;
        let mut leaves = vec![LeafSpec { dims: a.clone(), vals: wide_vals(z, numel(&a), 0, 0, true), tracked: (z >> 50) & 1 == 1 }];
        let mut calls = vec![];
        for c in 0..ncalls {
            let y = mix(z ^ (c as u64 + 1));
            // the third call repeats the first partner's shape (the table of the second call must not stick either)
            let b = if c == 2 { leaves[1].dims.clone() } else { partner(y >> 8) };
            leaves.push(LeafSpec { dims: b.clone(), vals: wide_vals(y, numel(&b), 0, 0, true), tracked: false });
            let me = ReuseArg { leaf: 0, view: None, via_clone: (y >> 3) & 1 == 1 };
            let other = ReuseArg { leaf: c + 1, view: None, via_clone: false };
            calls.push(ReuseCall { op: op_of((y % NOPS) as usize), args: if (y >> 4) & 1 == 0 { vec![me, other] } else { vec![other, me] } });
        }
        Some(ReuseSeqCase { leaves, calls })
    }));
    // value patterns and huge / tiny magnitudes (value-dependent shortcuts), and last dimensions around block lengths
    st.merge(ctx.run_indexed("value-patterns", NOPS * (N_PATTERNS * N_PATTERNS) as u64 * 2, None, |i| {
        let opi = (i % NOPS) as usize;
        let j = i / NOPS;
        let (pa, pb) = ((j % N_PATTERNS as u64) as usize, ((j / N_PATTERNS as u64) % N_PATTERNS as u64) as usize);
        let (a, b): (Vec<usize>, Vec<usize>) = if j / (N_PATTERNS * N_PATTERNS) as u64 == 0 { (vec![2, 3], vec![2, 3]) } else { (vec![2, 1, 3], vec![4, 1]) };
        let vb = pattern_vals(pb, numel(&b), j + 1);
        if opi == 3 && vb.iter().any(|v| *v == 0.0) {
            return None;
        }
        Some(FwdCase { op: op_of(opi), leaves: vec![LeafSpec { dims: a.clone(), vals: pattern_vals(pa, numel(&a), j), tracked: false }, LeafSpec { dims: b, vals: vb, tracked: false }], force_exact: None, second_is_view_of_first: None })
    }));
    st.merge(ctx.run_indexed("extreme-magnitudes", 4 * 4, None, |i| {
        // add/sub of huge values that do not overflow, mul/div of huge by tiny
        let big = 2f64.powi(if crate::exec::IS_F32 { 100 } else { 1000 });
        let small = 1.0 / big;
        let v = i / 4;
        let (va, vb): (Vec<f64>, Vec<f64>) = match (i % 4, v % 2) {
            // sums of huge values that stay finite; differences of tiny ones
            (0 | 1, 0) => (vec![big, -big, big / 4.0, 0.0], vec![big / 2.0, -big / 2.0]),
            (0 | 1, _) => (vec![small, -small, small * 3.0, 0.0], vec![small, small * 5.0]),
            // products / quotients of huge and tiny values that stay finite
            (2, 0) => (vec![big, -big, small, 3.0], vec![small, small * 4.0]),
            (2, _) => (vec![small, big, -small, big / 8.0], vec![big, 2.0]),
            // subnormal divisors under tiny numerators: the quotient is an ordinary number although 1/b is not
            (3, 0) if v >= 2 => (vec![small * small.sqrt() * 0.0 + tiny_of(8.0), -tiny_of(2.0), tiny_of(1.0), tiny_of(64.0)], vec![tiny_of(0.125), tiny_of(0.5)]),
            (_, 0) => (vec![big, -big, small, 3.0], vec![2.0, big]),
            (_, _) => (vec![small, big / 4.0, -small, 1.0], vec![small, 0.25]),
        };
        Some(FwdCase { op: op_of((i % 4) as usize), leaves: vec![LeafSpec { dims: vec![2, 2], vals: va, tracked: false }, LeafSpec { dims: vec![2], vals: vb[..2].to_vec(), tracked: false }], force_exact: None, second_is_view_of_first: None })
    }));
    // operands of very different magnitudes (per operand and per element), full mantissas
    {
        let pairs: Vec<(Vec<usize>, Vec<usize>)> = vec![(vec![5], vec![5]), (vec![2, 3], vec![3]), (vec![3, 1], vec![1, 4]), (vec![2, 1, 3], vec![4, 1]), (vec![7], vec![1]), (vec![2, 2, 2], vec![2, 1, 2]), (vec![33], vec![33])];
        let np = pairs.len() as u64;
        let (lin, mul, jit) = wide_exps();
        st.merge(ctx.run_indexed("wide-magnitudes", np * NOPS * ctx.tier.pick(240, 4000), None, |i| {
            let opi = (i % NOPS) as usize;
            let (a, b) = &pairs[((i / NOPS) % np) as usize];
            let z = mix(i ^ 0xC04 ^ ctx.seed.wrapping_mul(0x9E3779B1));
            let max = if matches!(opi, 2 | 3) { mul } else { lin };
            let (ba, bb) = (pick_base(z as u8, max), pick_base((z >> 8) as u8, max));
            let (ja, jb) = (if (z >> 16) & 1 == 0 { 0 } else { jit }, if (z >> 17) & 1 == 0 { 0 } else { jit });
            let (a, b) = if (z >> 18) & 1 == 0 { (a.clone(), b.clone()) } else { (b.clone(), a.clone()) };
            Some(FwdCase { op: op_of(opi), leaves: vec![LeafSpec { dims: a.clone(), vals: wide_vals(z, numel(&a), ba, ja, true), tracked: (z >> 19) & 1 == 1 }, LeafSpec { dims: b.clone(), vals: wide_vals(z ^ 9, numel(&b), bb, jb, true), tracked: false }], force_exact: None, second_is_view_of_first: None })
        }));
    }
    // element counts beyond 2^16 (index arithmetic in narrow integer types)
    {
        let pairs: Vec<(Vec<usize>, Vec<usize>)> = vec![(vec![70001], vec![70001]), (vec![70001], vec![1]), (vec![1], vec![66000]), (vec![300, 300], vec![300, 1]), (vec![2, 40000], vec![40000]), (vec![257, 1], vec![1, 257]), (vec![3, 256, 256], vec![256, 1]), (vec![66000, 2], vec![2])];
        let np = pairs.len() as u64;
        st.merge(ctx.run_indexed("more-than-65536-elements", np * 4, None, |i| {
            let (a, b) = &pairs[(i % np) as usize];
            let opi = (i / np) as usize;
            let mut c = exact_case(opi, a, b);
            // exact data that still tells positions apart: position modulo a prime, and a few powers of two
            c.leaves[0].vals = (0..numel(a)).map(|k| (k % 8191 + 1) as f64).collect();
            c.leaves[1].vals = if matches!(opi, 2 | 3) { (0..numel(b)).map(|k| 2f64.powi((k % 11) as i32 - 5)).collect() } else { (0..numel(b)).map(|k| ((k % 127) * 8192) as f64).collect() };
            Some(c)
        }));
    }
    {
        let nb = BOUNDARY_SIZES.len() as u64;
        st.merge(ctx.run_indexed("boundary-sizes", nb * NOPS * 4, None, |i| {
            let n = BOUNDARY_SIZES[(i % nb) as usize];
            let opi = ((i / nb) % NOPS) as usize;
            let (a, b) = match i / nb / NOPS {
                0 => (vec![n], vec![1]),
                1 => (vec![2, n], vec![2, 1]),
                2 => (vec![1], vec![3, n]),
                _ => (vec![n, 2], vec![n, 1]),
            };
            let mut c = exact_case(opi, &a, &b);
            if matches!(opi, 2 | 3) {
                // keep products exact for long operands: small odd numbers against a few powers of two
                c.leaves[0].vals = (0..numel(&a)).map(|k| (2 * (k % 50) + 1) as f64).collect();
                c.leaves[1].vals = (0..numel(&b)).map(|k| 2f64.powi((k % 9) as i32 - 4)).collect();
            }
            Some(c)
        }));
    }
    let (max_rank, max_size, total, max_elems) = ctx.tier.pick((5usize, 8usize, 160000u64, 600usize), (5, 11, 400000, 2048));
    let strat = move || {
        (
            prop::collection::vec(1..=max_size, 1..=max_rank),
            prop::collection::vec(any::<u8>(), max_rank),
            prop::collection::vec(1..=max_size, max_rank),
            1..=max_rank,
            0..12usize,
            any::<bool>(),
            any::<u64>(),
        )
            .prop_map(|(a, mods, extra, rank_b, opi, swap, vseed)| PairRecipe { a, mods, extra, rank_b, opi, swap, vseed })
            .boxed()
    };
    st.merge(ctx.run_prop("random-pairs", total, strat, move |r| random_case(r, max_elems)));
    st
}

pub fn run(ctx: &Ctx) -> i32 {
    let mut st = ctx.run_replays(&dispatch);
    st.merge(campaigns(ctx));
    if ctx.tier == Tier::Thorough {
        st.merge(ctx.run_fuzz(30000, ctx.threads, &dispatch));
    }
    finish(
        ctx,
        st,
        "cases = (operation in {add,sub,mul,div,axpy}) x (ordered pair of operand shapes): all pairs of rank 1..4 with sizes 1..3 enumerated, rank<=5 sizes<=6 (quick) / <=8 (thorough) sampled with proptest; admissible pairs must return the pairwise-maximum dimensions and the reference broadcast values, inadmissible pairs must panic. Non-trivial = the pair is admissible with differing shapes (a real broadcast) or inadmissible (a refusal is demanded); distinct by (operation, both shapes).",
        &[
            "enumerated block: data chosen so every (a-element, b-element) pairing gives a distinct exactly representable result; compared bitwise",
            "sampled block: magnitudes in [0.25, 4], compared with |got-ref| <= rtol*(|ref|+mag)+atol (rtol 1e-9 f64)",
            "a panic of any kind counts as refusal",
        ],
        json!({"operations": OPS}),
    )
}
