//! Campaign runner: parallel workers, proptest drivers with fixed seeds, exhaustive enumerators,
//! statistics, replay files, evidence files, exit codes.

use proptest::strategy::{BoxedStrategy, Strategy};
use proptest::test_runner::{Config, RngAlgorithm, TestCaseError, TestError, TestRng, TestRunner};
use serde::de::DeserializeOwned;
use serde::Serialize;
use serde_json::{json, Value};
use std::cell::RefCell;
use std::collections::{BTreeMap, HashSet};
use std::sync::atomic::{AtomicU64, Ordering};
use std::sync::{Arc, Mutex};
use std::time::Instant;

use crate::known::Known;

#[derive(Clone, Copy, Debug, PartialEq, Eq)]
pub enum Tier {
    Quick,
    Thorough,
}
impl Tier {
    pub fn name(&self) -> &'static str {
        match self {
            Tier::Quick => "quick",
            Tier::Thorough => "thorough",
        }
    }
    pub fn pick<X>(&self, q: X, t: X) -> X {
        match self {
            Tier::Quick => q,
            Tier::Thorough => t,
        }
    }
}

#[derive(Clone, Debug)]
pub struct Fail {
    /// short failure kind, e.g. "value-mismatch", "unexpected-panic", "not-refused"
    pub kind: String,
    /// stable class of the failing input, used to de-duplicate and to match known findings
    pub signature: String,
    /// human readable: expected vs observed
    pub detail: String,
}

#[derive(Clone, Debug)]
pub enum Verdict {
    Pass,
    Fail(Fail),
    /// the case is outside the property's domain or undecidable (e.g. value too close to a branch threshold)
    Discard(String),
    /// the harness itself is inconsistent: exit 2, never a violation
    Internal(String),
}

#[derive(Clone, Debug)]
pub struct Outcome {
    pub verdict: Verdict,
    pub nontrivial: bool,
    /// canonical structural key (shapes, operations, parameter classes; not raw values)
    pub key: u64,
    pub classes: Vec<String>,
}
impl Outcome {
    pub fn pass(nontrivial: bool, key: u64, classes: Vec<String>) -> Outcome {
        Outcome { verdict: Verdict::Pass, nontrivial, key, classes }
    }
    pub fn fail(kind: &str, signature: String, detail: String, key: u64, classes: Vec<String>) -> Outcome {
        Outcome { verdict: Verdict::Fail(Fail { kind: kind.to_string(), signature, detail }), nontrivial: true, key, classes }
    }
    pub fn discard(why: &str) -> Outcome {
        Outcome { verdict: Verdict::Discard(why.to_string()), nontrivial: false, key: 0, classes: vec![] }
    }
    pub fn internal(why: String) -> Outcome {
        Outcome { verdict: Verdict::Internal(why), nontrivial: false, key: 0, classes: vec![] }
    }
}

pub trait CaseKind: Serialize + DeserializeOwned + Clone + Send + Sync + std::fmt::Debug + 'static {
    /// kind tag stored in replay files
    const KIND: &'static str;
    fn run(&self) -> Outcome;
    /// rough size, used to keep the smallest failing case of a signature
    fn size(&self) -> usize;
    /// short readable form for evidence samples
    fn sample(&self) -> Value {
        serde_json::to_value(self).unwrap_or(Value::Null)
    }
}

#[derive(Clone, Debug)]
pub struct Failure {
    pub fail: Fail,
    pub kind_tag: String,
    pub campaign: String,
    pub case: Value,
    pub size: usize,
    pub replay_path: Option<String>,
}

#[derive(Default, Debug)]
pub struct Stats {
    pub evaluations: u64,
    pub nontrivial: HashSet<u64>,
    pub classes: BTreeMap<String, u64>,
    pub samples: Vec<Value>,
    pub discarded: BTreeMap<String, u64>,
    pub excluded_known: BTreeMap<String, u64>,
    pub failures: Vec<Failure>,
    pub internal: Vec<String>,
    pub exhaustive: Vec<String>,
    pub campaigns: Vec<Value>,
}

impl Stats {
    pub fn merge(&mut self, o: Stats) {
        self.evaluations += o.evaluations;
        self.nontrivial.extend(o.nontrivial);
        for (k, v) in o.classes {
            *self.classes.entry(k).or_insert(0) += v;
        }
        for s in o.samples {
            if self.samples.len() < 8 {
                self.samples.push(s);
            }
        }
        for (k, v) in o.discarded {
            *self.discarded.entry(k).or_insert(0) += v;
        }
        for (k, v) in o.excluded_known {
            *self.excluded_known.entry(k).or_insert(0) += v;
        }
        for f in o.failures {
            self.add_failure(f);
        }
        self.internal.extend(o.internal);
        self.exhaustive.extend(o.exhaustive);
        self.campaigns.extend(o.campaigns);
    }
    pub fn add_failure(&mut self, f: Failure) {
        if let Some(e) = self.failures.iter_mut().find(|e| e.fail.signature == f.fail.signature) {
            if f.size < e.size {
                *e = f;
            }
        } else {
            self.failures.push(f);
        }
    }
    fn record<C: CaseKind>(&mut self, case: &C, out: &Outcome, want_sample: bool) {
        self.evaluations += 1;
        for c in &out.classes {
            *self.classes.entry(c.clone()).or_insert(0) += 1;
        }
        if out.nontrivial {
            let fresh = self.nontrivial.insert(out.key);
            if fresh && want_sample && self.samples.len() < 3 {
                self.samples.push(json!({"kind": C::KIND, "case": case.sample()}));
            }
        }
    }
}

pub struct Ctx {
    pub property: String,
    pub tier: Tier,
    pub seed: u64,
    pub threads: usize,
    pub known: Known,
    pub root: String,
    pub started: Instant,
    pub heartbeats: Arc<Vec<AtomicU64>>,
}

pub use refmodel::vals::mix;
pub fn hash_str(s: &str) -> u64 {
    let mut h = 0xcbf29ce484222325u64;
    for b in s.bytes() {
        h ^= b as u64;
        h = h.wrapping_mul(0x100000001b3);
    }
    mix(h)
}
pub fn hash_bytes(b: &[u8]) -> u64 {
    let mut h = 0xcbf29ce484222325u64;
    for x in b {
        h ^= *x as u64;
        h = h.wrapping_mul(0x100000001b3);
    }
    mix(h)
}

/// a small hasher for canonical case keys
#[derive(Clone, Copy)]
pub struct KeyHasher(pub u64);
impl KeyHasher {
    pub fn new(tag: &str) -> KeyHasher {
        KeyHasher(hash_str(tag))
    }
    pub fn u(&mut self, x: u64) -> &mut Self {
        self.0 = mix(self.0 ^ x.wrapping_mul(0x9E3779B97F4A7C15));
        self
    }
    pub fn us(&mut self, xs: &[usize]) -> &mut Self {
        self.u(xs.len() as u64 + 1000);
        for x in xs {
            self.u(*x as u64);
        }
        self
    }
    pub fn s(&mut self, x: &str) -> &mut Self {
        self.u(hash_str(x))
    }
    pub fn b(&mut self, x: bool) -> &mut Self {
        self.u(x as u64 + 7)
    }
    pub fn finish(&self) -> u64 {
        self.0
    }
}

impl Ctx {
    fn rng_seed(&self, campaign: &str, worker: usize) -> [u8; 32] {
        let base = mix(self.seed) ^ hash_str(&self.property) ^ hash_str(campaign).rotate_left(17) ^ mix(worker as u64 + 1).rotate_left(31);
        let mut out = [0u8; 32];
        let mut z = base;
        for i in 0..4 {
            z = mix(z);
            out[i * 8..i * 8 + 8].copy_from_slice(&z.to_le_bytes());
        }
        out
    }

    fn beat(&self, worker: usize) {
        self.heartbeats[worker].store(self.started.elapsed().as_millis() as u64 + 1, Ordering::Relaxed);
    }
    fn idle(&self, worker: usize) {
        self.heartbeats[worker].store(0, Ordering::Relaxed);
    }

    /// classify one outcome into the statistics; returns Some(fail) when it is an unlisted failure
    fn absorb<C: CaseKind>(&self, st: &mut Stats, case: &C, out: &Outcome, campaign: &str, want_sample: bool) -> Option<Fail> {
        match &out.verdict {
            Verdict::Pass => {
                st.record(case, out, want_sample);
                None
            }
            Verdict::Discard(why) => {
                *st.discarded.entry(why.clone()).or_insert(0) += 1;
                None
            }
            Verdict::Internal(msg) => {
                if st.internal.len() < 5 {
                    st.internal.push(format!("{}: {} :: {}", campaign, msg, serde_json::to_string(case).unwrap_or_default()));
                }
                None
            }
            Verdict::Fail(f) => {
                st.record(case, out, false);
                if let Some(id) = self.known.matches_open(&self.property, &f.signature) {
                    *st.excluded_known.entry(id).or_insert(0) += 1;
                    None
                } else {
                    Some(f.clone())
                }
            }
        }
    }

    fn spawn_workers<F>(&self, n: usize, f: F) -> Stats
    where
        F: Fn(usize) -> Stats + Sync,
    {
        let merged = Mutex::new(Vec::<(usize, Stats)>::new());
        std::thread::scope(|sc| {
            for w in 0..n {
                let f = &f;
                let merged = &merged;
                std::thread::Builder::new()
                    .stack_size(512 << 20)
                    .spawn_scoped(sc, move || {
                        let r = std::panic::catch_unwind(std::panic::AssertUnwindSafe(|| f(w)));
                        self.idle(w);
                        let st = match r {
                            Ok(s) => s,
                            Err(p) => {
                                let msg = if let Some(s) = p.downcast_ref::<String>() {
                                    s.clone()
                                } else if let Some(s) = p.downcast_ref::<&str>() {
                                    s.to_string()
                                } else {
                                    "panic".into()
                                };
                                let mut s = Stats::default();
                                s.internal.push(format!("harness worker panicked: {}", msg));
                                s
                            }
                        };
                        merged.lock().unwrap().push((w, st));
                    })
                    .expect("spawn");
            }
        });
        let mut parts = merged.into_inner().unwrap();
        parts.sort_by_key(|p| p.0);
        let mut all = Stats::default();
        for (_, s) in parts {
            all.merge(s);
        }
        all
    }

    /// Enumerate `count` cases produced by `make(index)` (None = index is not a case), all executed.
    pub fn run_indexed<C: CaseKind>(&self, campaign: &str, count: u64, exhaustive_note: Option<&str>, make: impl Fn(u64) -> Option<C> + Sync) -> Stats {
        let t0 = Instant::now();
        let n = self.threads.max(1);
        let mut st = self.spawn_workers(n, |w| {
            let mut st = Stats::default();
            let mut i = w as u64;
            while i < count {
                if let Some(case) = make(i) {
                    self.beat(w);
                    let out = case.run();
                    if let Some(f) = self.absorb(&mut st, &case, &out, campaign, w == 0) {
                        st.add_failure(Failure {
                            fail: f,
                            kind_tag: C::KIND.to_string(),
                            campaign: campaign.to_string(),
                            case: serde_json::to_value(&case).unwrap(),
                            size: case.size(),
                            replay_path: None,
                        });
                    }
                }
                i += n as u64;
            }
            st
        });
        if let Some(note) = exhaustive_note {
            st.exhaustive.push(note.to_string());
        }
        st.campaigns.push(json!({"campaign": campaign, "mode": "enumeration", "cases": st.evaluations, "exhaustive": exhaustive_note.is_some(), "wall_s": t0.elapsed().as_secs_f64()}));
        st
    }

    /// Random campaign: `total` cases split over the workers; each worker drives its own proptest
    /// TestRunner with a seed derived from (VERIF_SEED, property, campaign, worker). A failing recipe
    /// is shrunk by proptest; the shrunk case is what gets reported.
    pub fn run_prop<Rcp, C>(&self, campaign: &str, total: u64, strategy: impl Fn() -> BoxedStrategy<Rcp> + Sync, elab: impl Fn(&Rcp) -> Option<C> + Sync) -> Stats
    where
        Rcp: std::fmt::Debug + Clone + 'static,
        C: CaseKind,
    {
        let t0 = Instant::now();
        let n = self.threads.max(1);
        let per = ((total + n as u64 - 1) / n as u64).max(1) as u32;
        let mut st = self.spawn_workers(n, |w| {
            let cfg = Config {
                cases: per,
                failure_persistence: None,
                max_shrink_iters: 4000,
                max_global_rejects: 1 << 30,
                max_local_rejects: 1 << 30,
                verbose: 0,
                ..Config::default()
            };
            let rng = TestRng::from_seed(RngAlgorithm::ChaCha, &self.rng_seed(campaign, w));
            let mut runner = TestRunner::new_with_rng(cfg, rng);
            let st = RefCell::new(Stats::default());
            let failed = RefCell::new(false);
            // the first failing case, before shrinking (reported when the shrunk one turns out not to fail)
            let first_fail: RefCell<Option<(C, Fail)>> = RefCell::new(None);
            let res = runner.run(&strategy(), |recipe| {
                let case = match elab(&recipe) {
                    Some(c) => c,
                    None => return Ok(()),
                };
                self.beat(w);
                let out = case.run();
                if *failed.borrow() {
                    // shrinking: only the verdict matters, statistics are frozen
                    return match &out.verdict {
                        Verdict::Fail(f) if self.known.matches_open(&self.property, &f.signature).is_none() => Err(TestCaseError::fail(f.signature.clone())),
                        _ => Ok(()),
                    };
                }
                let mut stm = st.borrow_mut();
                match self.absorb(&mut stm, &case, &out, campaign, w == 0) {
                    Some(f) => {
                        *failed.borrow_mut() = true;
                        *first_fail.borrow_mut() = Some((case.clone(), f.clone()));
                        Err(TestCaseError::fail(f.signature))
                    }
                    None => Ok(()),
                }
            });
            let mut stm = st.into_inner();
            match res {
                Ok(()) => {}
                Err(TestError::Fail(_, recipe)) => {
                    if let Some(case) = elab(&recipe) {
                        let out = case.run();
                        if let Verdict::Fail(f) = out.verdict {
                            stm.add_failure(Failure {
                                fail: f,
                                kind_tag: C::KIND.to_string(),
                                campaign: campaign.to_string(),
                                case: serde_json::to_value(&case).unwrap(),
                                size: case.size(),
                                replay_path: None,
                            });
                        } else if let Some((orig, f0)) = first_fail.borrow_mut().take() {
                            // behaviour that depends on earlier calls: fall back to the unshrunk case
                            match orig.run().verdict {
                                Verdict::Fail(f) => stm.add_failure(Failure { fail: f, kind_tag: C::KIND.to_string(), campaign: campaign.to_string(), case: serde_json::to_value(&orig).unwrap(), size: orig.size(), replay_path: None }),
                                _ => stm.internal.push(format!("{}: a case failed ({}: {}) but neither it nor its shrunk form fails when run again: the outcome depends on what ran before", campaign, f0.signature, f0.detail.chars().take(300).collect::<String>())),
                            }
                        }
                    }
                }
                Err(TestError::Abort(r)) => stm.internal.push(format!("{}: proptest aborted: {}", campaign, r)),
            }
            stm
        });
        st.campaigns.push(json!({"campaign": campaign, "mode": "proptest", "cases": st.evaluations, "wall_s": t0.elapsed().as_secs_f64()}));
        st
    }

    /// Replay saved cases (regressions/ and replays/) through `dispatch`.
    pub fn run_replays(&self, dispatch: &dyn Fn(&str, &Value) -> Option<Outcome>) -> Stats {
        let mut st = Stats::default();
        let mut n = 0;
        for dir in ["regressions", "replays"] {
            let d = format!("{}/{}", self.root, dir);
            let mut files: Vec<String> = match std::fs::read_dir(&d) {
                Ok(rd) => rd.flatten().map(|e| e.file_name().to_string_lossy().to_string()).collect(),
                Err(_) => vec![],
            };
            files.sort();
            for f in files {
                if !(f.starts_with(&format!("{}-", self.property)) && f.ends_with(".json")) {
                    continue;
                }
                let path = format!("{}/{}", d, f);
                let Ok(txt) = std::fs::read_to_string(&path) else { continue };
                let Ok(v) = serde_json::from_str::<Value>(&txt) else {
                    st.internal.push(format!("unreadable replay file {}", path));
                    continue;
                };
                let kind = v["kind"].as_str().unwrap_or("");
                match dispatch(kind, &v["case"]) {
                    None => st.internal.push(format!("replay file {} has unknown kind {:?}", path, kind)),
                    Some(out) => {
                        n += 1;
                        st.evaluations += 1;
                        match out.verdict {
                            Verdict::Fail(fl) => {
                                if let Some(id) = self.known.matches_open(&self.property, &fl.signature) {
                                    *st.excluded_known.entry(id).or_insert(0) += 1;
                                } else {
                                    st.add_failure(Failure {
                                        fail: fl,
                                        kind_tag: kind.to_string(),
                                        campaign: format!("replay:{}", dir),
                                        case: v["case"].clone(),
                                        size: 0,
                                        replay_path: Some(path.clone()),
                                    });
                                }
                            }
                            Verdict::Internal(m) => st.internal.push(format!("{}: {}", path, m)),
                            _ => {
                                if out.nontrivial {
                                    st.nontrivial.insert(out.key);
                                }
                            }
                        }
                    }
                }
            }
        }
        st.campaigns.push(json!({"campaign": "saved-replays", "mode": "replay", "cases": n}));
        st
    }
}

impl Ctx {
    /// Coverage-guided stage (thorough tier): run the libFuzzer target (built by bin/check, path in
    /// VERIF_FUZZ_BIN) with VERIF_FUZZ_PROPERTY = this property, `jobs` processes x `runs` executions from a
    /// generated seed corpus. Oracle failures come back as replay files and are re-judged in this process.
    pub fn run_fuzz(&self, runs: u64, jobs: usize, dispatch: &dyn Fn(&str, &Value) -> Option<Outcome>) -> Stats {
        let mut st = Stats::default();
        let Ok(bin) = std::env::var("VERIF_FUZZ_BIN") else {
            st.campaigns.push(json!({"campaign": "libfuzzer", "mode": "skipped", "reason": "VERIF_FUZZ_BIN not set (fuzz target not built)"}));
            return st;
        };
        let t0 = Instant::now();
        let work = format!("{}/fuzz/work-{}-{}", self.root, self.property, std::process::id());
        let out = format!("{}/out", work);
        let _ = std::fs::remove_dir_all(&work);
        let _ = std::fs::create_dir_all(&out);
        let mut children = vec![];
        for j in 0..jobs {
            let corpus = format!("{}/corpus-{}", work, j);
            let _ = std::fs::create_dir_all(&corpus);
            // seed corpus: random byte strings of useful lengths (every byte string is a valid recipe)
            let mut z = mix(self.seed ^ hash_str(&self.property) ^ (j as u64) << 32);
            for k in 0..24 {
                let len = 17 + 8 * (k % 12) * 2 + k;
                let bytes: Vec<u8> = (0..len).map(|_| { z = mix(z); (z >> 24) as u8 }).collect();
                let _ = std::fs::write(format!("{}/seed-{}", corpus, k), bytes);
            }
            let log = std::fs::File::create(format!("{}/job-{}.log", work, j)).ok();
            let mut cmd = std::process::Command::new(&bin);
            cmd.arg(format!("-runs={}", runs))
                .arg(format!("-seed={}", (mix(self.seed.wrapping_add(j as u64 * 7919)) % 2_000_000_000) + 1))
                .arg("-max_len=400")
                .arg("-len_control=0")
                .arg("-timeout=120")
                .arg("-rss_limit_mb=0")
                .arg("-malloc_limit_mb=4096")
                .arg(format!("-artifact_prefix={}/artifact-{}-", work, j))
                .arg(&corpus)
                .env("VERIF_FUZZ_PROPERTY", &self.property)
                .env("VERIF_FUZZ_OUT", &out)
                .stdout(std::process::Stdio::null());
            if let Some(l) = log {
                cmd.stderr(l);
            }
            if let Ok(c) = cmd.spawn() {
                children.push(c);
            }
        }
        let mut abnormal = 0;
        for mut c in children {
            if let Ok(s) = c.wait() {
                if !s.success() {
                    abnormal += 1;
                }
            }
        }
        let mut total_runs = 0u64;
        let mut cov = 0u64;
        let mut other_crash = vec![];
        for j in 0..jobs {
            let txt = std::fs::read_to_string(format!("{}/job-{}.log", work, j)).unwrap_or_default();
            for line in txt.lines() {
                if let Some(r) = line.strip_prefix("Done ") {
                    total_runs += r.split_whitespace().next().and_then(|x| x.parse::<u64>().ok()).unwrap_or(0);
                }
                if let Some(i) = line.find(" cov: ") {
                    cov = cov.max(line[i + 6..].split_whitespace().next().and_then(|x| x.parse().ok()).unwrap_or(0));
                }
                if (line.contains("ERROR: libFuzzer") || line.contains("SUMMARY:")) && !txt.contains("FUZZ-VIOLATION") && other_crash.len() < 3 {
                    other_crash.push(format!("job {}: {}", j, line));
                }
            }
        }
        // re-judge every reported case in this process
        let mut files: Vec<String> = std::fs::read_dir(&out).map(|rd| rd.flatten().map(|e| e.path().to_string_lossy().to_string()).collect()).unwrap_or_default();
        files.sort();
        for f in files {
            let Ok(txt) = std::fs::read_to_string(&f) else { continue };
            let Ok(v) = serde_json::from_str::<Value>(&txt) else { continue };
            let kind = v["kind"].as_str().unwrap_or("").to_string();
            if let Some(o) = dispatch(&kind, &v["case"]) {
                if let Verdict::Fail(fl) = o.verdict {
                    if let Some(id) = self.known.matches_open(&self.property, &fl.signature) {
                        *st.excluded_known.entry(id).or_insert(0) += 1;
                    } else {
                        st.add_failure(Failure { fail: fl, kind_tag: kind, campaign: "libfuzzer".into(), case: v["case"].clone(), size: txt.len(), replay_path: None });
                    }
                } else {
                    st.internal.push(format!("libfuzzer reported {} but the case passes when re-judged", f));
                }
            }
        }
        if st.failures.is_empty() && !other_crash.is_empty() {
            st.internal.push(format!("libfuzzer stopped abnormally without an oracle failure: {:?}", other_crash));
        }
        st.evaluations += total_runs;
        st.campaigns.push(json!({"campaign": "libfuzzer", "mode": "coverage-guided", "jobs": jobs, "runs_per_job": runs, "executions": total_runs, "edge_coverage": cov, "abnormal_exits": abnormal, "wall_s": t0.elapsed().as_secs_f64()}));
        let _ = std::fs::remove_dir_all(&work);
        st
    }
}

pub fn write_replay(root: &str, property: &str, f: &Failure) -> String {
    write_replay_in(&format!("{}/replays", root), property, f)
}

pub fn write_replay_in(dir: &str, property: &str, f: &Failure) -> String {
    let body = json!({
        "property": property,
        "kind": f.kind_tag,
        "campaign": f.campaign,
        "failure": {"kind": f.fail.kind, "signature": f.fail.signature, "detail": f.fail.detail},
        "case": f.case,
    });
    let txt = serde_json::to_string_pretty(&body).unwrap();
    let h = hash_bytes(serde_json::to_string(&f.case).unwrap().as_bytes());
    let _ = std::fs::create_dir_all(dir);
    let path = format!("{}/{}-{:012x}.json", dir, property, h & 0xffff_ffff_ffff);
    let _ = std::fs::write(&path, txt);
    path
}

/// Write evidence, print verdict lines, return the process exit code.
pub fn finish(ctx: &Ctx, mut st: Stats, rule: &str, assumptions: &[&str], extra: Value) -> i32 {
    let mut code = 0;
    for (id, n) in &st.excluded_known {
        println!("KNOWN-FINDING: property={} {} ({} cases excluded this run)", ctx.property, ctx.known.describe(id), n);
    }
    let mut viol = vec![];
    st.failures.sort_by_key(|f| f.size);
    let total_failures = st.failures.len();
    const MAX_REPORTED: usize = 8;
    if total_failures > MAX_REPORTED {
        println!("{} distinct failure signatures; reporting the {} smallest", total_failures, MAX_REPORTED);
        st.failures.truncate(MAX_REPORTED);
    }
    for f in st.failures.iter_mut() {
        let path = match &f.replay_path {
            Some(p) => p.clone(),
            None => write_replay(&ctx.root, &ctx.property, f),
        };
        println!("VIOLATION property={} replay={}", ctx.property, path);
        println!("  campaign={} kind={} signature={}", f.campaign, f.fail.kind, f.fail.signature);
        println!("  {}", f.fail.detail.replace('\n', "\n  "));
        viol.push(json!({"signature": f.fail.signature, "kind": f.fail.kind, "replay": path, "campaign": f.campaign}));
        code = 1;
    }
    if !st.internal.is_empty() {
        for m in &st.internal {
            eprintln!("INTERNAL: {}", m);
        }
        if code == 0 {
            code = 2;
        }
    }
    let wall = ctx.started.elapsed().as_secs_f64();
    let mut coverage = json!({
        "evaluations": st.evaluations,
        "distinct_nontrivial": st.nontrivial.len(),
        "rule": rule,
        "samples": st.samples,
        "classes": st.classes,
        "discarded": st.discarded,
        "excluded_known": st.excluded_known,
        "campaigns": st.campaigns,
        "exhaustive": !st.exhaustive.is_empty(),
        "exhaustive_blocks": st.exhaustive,
        "violations_detail": viol,
        "internal_errors": st.internal,
    });
    if let (Some(c), Some(e)) = (coverage.as_object_mut(), extra.as_object()) {
        for (k, v) in e {
            c.insert(k.clone(), v.clone());
        }
    }
    let ev = json!({
        "property_id": ctx.property,
        "tier": ctx.tier.name(),
        "seed": ctx.seed,
        "level": "exploration",
        "coverage": coverage,
        "assumptions": assumptions,
        "wall_s": wall,
        "violations": total_failures,
    });
    let dir = format!("{}/evidence", ctx.root);
    let _ = std::fs::create_dir_all(&dir);
    let path = format!("{}/{}.json", dir, ctx.property);
    if let Err(e) = std::fs::write(&path, serde_json::to_string_pretty(&ev).unwrap()) {
        eprintln!("INTERNAL: cannot write evidence {}: {}", path, e);
        if code == 0 {
            code = 2;
        }
    }
    println!(
        "{} {} seed={} evaluations={} distinct_nontrivial={} violations={} known_excluded={} wall={:.1}s exit={}",
        ctx.property,
        ctx.tier.name(),
        ctx.seed,
        st.evaluations,
        st.nontrivial.len(),
        total_failures,
        st.excluded_known.values().sum::<u64>(),
        wall,
        code
    );
    code
}
