//! C19 The single-precision build gives the same results to single precision.
//! This module is meaningful in the harness built with `--features f32` (bin/check does that for C19):
//! it re-runs the C01-C07 campaigns in that build. Shapes, tracking, acceptance/refusal and exact-mode
//! values must match the precision-independent reference exactly; other values within the f32 tolerance.

use crate::exec::IS_F32;
use crate::histcase::HistCase;
use crate::opcase::*;
use crate::runner::*;
use serde_json::{json, Value};

pub fn dispatch(kind: &str, v: &Value) -> Option<Outcome> {
    match kind {
        "forward-op" => serde_json::from_value::<FwdCase>(v.clone()).ok().map(|c| c.run()),
        "grad-op" => serde_json::from_value::<GradCase>(v.clone()).ok().map(|c| c.run()),
        "history" => serde_json::from_value::<HistCase>(v.clone()).ok().map(|c| c.run()),
        "c07-scalar" | "c07-any" => crate::c07::dispatch(kind, v),
        "c06" | "forward-op-sequence" => crate::c06::dispatch(kind, v),
        "c09" | "c09-iff" => crate::c09::dispatch(kind, v),
        "c10" => crate::c10::dispatch(kind, v),
        "c12" => crate::c12::dispatch(kind, v),
        "c13" => crate::c13::dispatch(kind, v),
        "c17" => crate::c17::dispatch(kind, v),
        "c03-any" => crate::c03::dispatch(kind, v),
        _ => None,
    }
}

pub fn run(ctx: &Ctx) -> i32 {
    if !IS_F32 {
        eprintln!("INCONCLUSIVE: C19 must run in the harness built with --features f32 (use bin/check C19)");
        return 2;
    }
    let mut st = ctx.run_replays(&dispatch);
    // the case spaces the property names (C01-C07), and - because "every value and gradient guarantee above holds
    // unchanged" - also the relation-based checks whose oracles do not depend on the float width
    let parts: [(&str, fn(&Ctx) -> Stats); 12] = [
        ("C04", crate::c04::campaigns),
        ("C05", crate::c05::campaigns),
        ("C06", crate::c06::campaigns),
        ("C07", crate::c07::campaigns),
        ("C02", crate::c02::campaigns),
        ("C03", crate::c03::campaigns),
        ("C01", crate::c01::campaigns),
        ("C09", crate::c09::campaigns),
        ("C10", crate::c10::campaigns),
        ("C12", crate::c12::campaigns),
        ("C13", crate::c13::campaigns),
        ("C17", crate::c17::campaigns),
    ];
    let mut per = vec![];
    for (name, f) in parts {
        let mut s = f(ctx);
        for c in s.campaigns.iter_mut() {
            if let Some(o) = c.as_object_mut() {
                let n = o.get("campaign").and_then(|x| x.as_str()).unwrap_or("").to_string();
                o.insert("campaign".into(), json!(format!("{}:{}", name, n)));
            }
        }
        for f in s.failures.iter_mut() {
            f.campaign = format!("{}:{}", name, f.campaign);
        }
        per.push(json!({"space": name, "evaluations": s.evaluations, "distinct_nontrivial": s.nontrivial.len()}));
        st.merge(s);
    }
    finish(
        ctx,
        st,
        "cases = the case spaces of C01-C07 (single operations over all small shapes and parameterisations, forward and gradients; matmul / conv configuration grids; generated programs with sharing, re-binding, branches and several passes), executed against corgi built with the f32 feature. Oracle: the precision-independent reference model - dimensions, tracking of results, acceptance vs refusal and all exact-mode data (integer / dyadic values below 2^22) must match exactly; other values within rtol 4e-4 * (|ref| + magnitude) + 1e-5. Non-trivial and distinct as in the underlying property.",
        &["f32 tolerance: rtol 4e-4, atol 1e-5 against the f64 reference, scaled by the magnitude of the terms involved", "a direct f64-vs-f32 dump comparison is not needed: both builds are compared with the same precision-independent reference, which fixes shapes, tracking and acceptance exactly"],
        json!({"float": "f32", "spaces": per}),
    )
}
