//! Runs a typed history on the reference model and on corgi side by side and applies the enabled oracles
//! after every step.

use crate::cmp::*;
use crate::exec::*;
use crate::opcase::step_name;
use refmodel::ir::*;
use refmodel::model::*;
use refmodel::ops::RefErr;

#[derive(Clone, Debug, Default)]
pub struct Oracles {
    /// forward values and dimensions of every operation result equal the reference
    pub forward: bool,
    /// gradients of graph-less arrays (leaves) equal the reference after every pass (presence, shape, value)
    pub leaf_grads: bool,
    /// gradients stored on operation results equal the reference adjoint
    pub inner_grads: bool,
    /// every stored gradient has its array's dimensions (all live handles)
    pub grad_shapes: bool,
    /// arrays the model says hold no gradient hold none
    pub grad_absence: bool,
    /// every live handle's tracking flag equals the model's after every step
    pub flags: bool,
    /// dimensions and value bits of every live handle never change
    pub immutable: bool,
    /// results of built-in operations are tracked iff an operand was
    pub result_tracking: bool,
    /// derivative closures of custom operations: invoked exactly once per pass for every reachable node, after
    /// all consumers, with the complete adjoint; never for unreachable nodes
    pub custom_log: bool,
    /// ownership probes must succeed wherever the model says the handle is the sole owner
    pub ownership: bool,
    /// a panic in an admissible step is a failure of this property (otherwise the case is discarded and counted)
    pub panics_fail: bool,
    /// arrays the model says hold a gradient hold one (values are not judged): nothing but a clear removes it
    pub grad_presence: bool,
}

#[derive(Clone, Debug)]
pub struct HFail {
    pub kind: String,
    /// operation / step the failure is attributed to
    pub at: String,
    pub detail: String,
}

#[derive(Clone, Debug, Default)]
pub struct HStats {
    pub passes: usize,
    pub grads_compared: usize,
    pub exact: bool,
    pub branch_taken: bool,
    pub max_fanout: usize,
    pub multi_path: bool,
    pub broadcast_and_sharing: bool,
    pub flags_compared: usize,
    pub snapshots_compared: usize,
    pub log_entries_checked: usize,
    pub probes: usize,
    pub probes_after_pass: usize,
    pub logged_shared_node: bool,
}

pub enum HOutcome {
    Ok(HStats),
    Fail(HFail, HStats),
    Discard(String),
    Internal(String),
}

struct Snapshot {
    dims: Vec<usize>,
    bits: Vec<u64>,
}

fn snap(a: &corgi::array::Array) -> Snapshot {
    Snapshot { dims: a.dimensions().to_vec(), bits: a.values().iter().map(|v| (*v as f64).to_bits()).collect() }
}

pub struct Interp {
    pub m: RefState,
    pub ex: Exec,
    pub or: Oracles,
    snaps: Vec<Option<Snapshot>>,
    pub stats: HStats,
    /// custom operation id -> model node
    pub custom_nodes: Vec<usize>,
    log_seen: usize,
}

fn op_at(s: &Step) -> String {
    match s {
        Step::Apply(a) => a.op.name().to_string(),
        Step::Rebind { spec, .. } => spec.op.name().to_string(),
        Step::IfGt { then_, .. } => then_.op.name().to_string(),
        _ => step_name(s).to_string(),
    }
}

impl Interp {
    pub fn new(or: Oracles, dir_budget: usize) -> Interp {
        Interp { m: RefState::new(dir_budget), ex: Exec::new(), or, snaps: vec![], stats: HStats { exact: true, ..Default::default() }, custom_nodes: vec![], log_seen: 0 }
    }

    fn sync_snaps(&mut self) {
        while self.snaps.len() < self.ex.slots.len() {
            let i = self.snaps.len();
            self.snaps.push(self.ex.slots[i].as_ref().map(snap));
        }
    }

    /// number of distinct tracked paths from `root` to each node (saturating), for non-triviality
    fn path_stats(&mut self, root: usize) {
        let reach = self.m.reach(root);
        let mut paths = vec![0u64; self.m.nodes.len()];
        paths[root] = 1;
        // nodes are created in topological order (operands before results): sweep from the root downwards
        let mut order = reach.clone();
        order.sort_unstable_by(|a, b| b.cmp(a));
        let mut fan = vec![0usize; self.m.nodes.len()];
        for &n in &order {
            for &(c, tr, _) in &self.m.nodes[n].edges {
                if tr {
                    paths[c] = paths[c].saturating_add(paths[n]);
                    fan[c] += 1;
                }
            }
        }
        for &n in &reach {
            self.stats.max_fanout = self.stats.max_fanout.max(fan[n]);
            if paths[n] >= 2 {
                self.stats.multi_path = true;
                // sharing together with broadcasting: the node's shape differs from a consumer's
                for &p in &reach {
                    if self.m.nodes[p].edges.iter().any(|e| e.0 == n && e.1) && self.m.nodes[p].t.dims != self.m.nodes[n].t.dims {
                        self.stats.broadcast_and_sharing = true;
                    }
                }
            }
        }
    }

    /// Run one step on both sides and apply the oracles. Ok(()) to continue.
    pub fn step(&mut self, idx: usize, s: &Step) -> Result<(), HOutcome> {
        let fail = |kind: &str, at: String, detail: String, st: &HStats| HOutcome::Fail(HFail { kind: kind.to_string(), at, detail }, st.clone());
        // a run that diverged earlier (e.g. a gradient read that produced nothing) may name handles that do not exist
        for r in step_refs(s) {
            if self.m.handles.get(r).map_or(true, |x| x.is_none()) || self.ex.slots.get(r).map_or(true, |x| x.is_none()) {
                return Err(HOutcome::Discard("the step names a handle that does not exist in this run".into()));
            }
        }
        // the model's decision for data-dependent branches, and a guard against undecidable comparisons
        if let Step::IfGt { cond, elem, thr, .. } = s {
            let mv = self.m.node_of(*cond).t.vals[*elem].v;
            let vm = self.m.node_of(*cond).t.vals[*elem].vm;
            if (mv - thr).abs() < (if IS_F32 { 1e-3 } else { 1e-6 }) * (1.0 + vm.abs() + thr.abs()) {
                return Err(HOutcome::Discard("branch value within rounding noise of the threshold".into()));
            }
            if *elem >= self.ex.get(*cond).values().len() {
                return Err(HOutcome::Discard("the forward result does not have the shape the case was typed with".into()));
            }
            let ev = self.ex.get(*cond).values()[*elem] as f64;
            if (mv > *thr) != (ev > *thr) {
                return Err(HOutcome::Discard("corgi and the reference take different branches (forward values differ)".into()));
            }
            self.stats.branch_taken = true;
        }
        if let Step::Backward { h, .. } = s {
            let root = self.m.handle(*h).node;
            self.path_stats(root);
        }
        if let Step::ProbeSole { h } = s {
            // only meaningful where the model predicts sole ownership of a graph-less array
            if self.m.handles.get(*h).map_or(true, |x| x.is_none()) || self.m.node_of(*h).has_graph() || !self.m.sole_owner(*h) {
                return Ok(());
            }
            self.stats.probes += 1;
            if self.stats.passes > 0 {
                self.stats.probes_after_pass += 1;
            }
            let dims = self.m.node_of(*h).t.dims.clone();
            if let Err(p) = self.ex.step(s) {
                if self.or.ownership {
                    return Err(fail("leak", "probe".into(), format!("step {}: every result derived from handle {} (dims {:?}) has been dropped, yet it is {}", idx, h, dims, p), &self.stats));
                }
                return Err(HOutcome::Discard("ownership probe failed under a check that does not judge ownership".into()));
            }
            let _ = self.m.step(s);
            self.sync_snaps();
            self.snaps[*h] = self.ex.slots[*h].as_ref().map(snap);
            return Ok(());
        }
        let handles_before = self.m.handles.len();
        let customs_before = self.ex.n_custom;
        let effects = match s {
            Step::Backward { h, seed } if self.or.custom_log => Some(self.m.pass_effects(*h, seed.as_deref())),
            _ => None,
        };
        let mut nodes_before = vec![];
        // parameters that hold a gradient when the optimizer runs (the others must be left exactly as they are)
        let mut stepped: Vec<usize> = vec![];
        if let Step::Update { params, .. } = s {
            for p in params {
                if self.m.node_of(*p).grad == GradSlot::Unknown {
                    return Err(HOutcome::Discard("update of a parameter whose gradient is not predictable".into()));
                }
                if matches!(self.m.node_of(*p).grad, GradSlot::Known { .. }) {
                    stepped.push(*p);
                }
                nodes_before.push(self.m.handle(*p).node);
            }
        }
        let kinks = refmodel::ops::kink_count();
        let mres = self.m.step(s);
        if refmodel::ops::kink_count() > kinks && !self.m.nodes.last().map_or(true, |n| n.exact) {
            return Err(HOutcome::Discard("a relu input is zero only up to rounding: its derivative is undecidable".into()));
        }
        let eres = self.ex.step(s);
        match (&mres, &eres) {
            (Err(RefErr::OutOfDomain(w)), _) => return Err(HOutcome::Discard(w.clone())),
            (Err(RefErr::Refuse(_)), Err(_)) => return Err(HOutcome::Discard("operation refused, as the reference demands".into())),
            (Err(RefErr::Refuse(w)), Ok(())) => return Err(fail("not-refused", op_at(s), format!("step {} {:?} must be refused ({}) but returned", idx, s, w), &self.stats)),
            (Ok(()), Err(p)) if is_discard(p) => return Err(HOutcome::Discard(p.clone())),
            (Ok(()), Err(p)) if !self.or.panics_fail => return Err(HOutcome::Discard(format!("a step panicked ({}); panics are judged by C01-C07/C10, not by this property", p.chars().take(60).collect::<String>()))),
            (Ok(()), Err(p)) => {
                let kind = if matches!(s, Step::Backward { .. }) { "panic-in-backward" } else { "unexpected-panic" };
                return Err(fail(kind, op_at(s), format!("step {} ({}) panicked: {}", idx, step_describe(s, &self.m), p), &self.stats));
            }
            (Ok(()), Ok(())) => {}
        }
        // a ReadGrad slot follows the model: when the model has no (predictable) gradient the slot is emptied
        if let Step::ReadGrad { h } = s {
            let mslot = self.m.handles.len() - 1;
            let has_model = self.m.handles[mslot].is_some();
            let has_exec = self.ex.slots[mslot].is_some();
            let unknown = self.m.node_of(*h).grad == GradSlot::Unknown;
            if !has_model && has_exec {
                if !unknown && self.or.grad_absence {
                    return Err(fail("unexpected-gradient", "read-gradient".into(), format!("step {}: handle {} holds a gradient although none may be stored", idx, h), &self.stats));
                }
                self.ex.slots[mslot] = None;
            } else if has_model && !has_exec {
                if self.or.leaf_grads || self.or.inner_grads {
                    return Err(fail("missing-gradient", "read-gradient".into(), format!("step {}: handle {} holds no gradient", idx, h), &self.stats));
                }
                self.m.handles[mslot] = None;
            }
        }
        if self.ex.n_custom > customs_before {
            // the custom operation just applied produced the newest model node
            if self.ex.n_custom != customs_before + 1 {
                return Err(HOutcome::Internal("more than one custom operation in one step".into()));
            }
            self.custom_nodes.push(self.m.nodes.len() - 1);
        }
        if let Some(eff) = effects {
            if let Err(o) = self.check_log(idx, s, &eff) {
                return Err(o);
            }
        }
        if self.m.handles.len() != self.ex.slots.len() {
            return Err(HOutcome::Internal(format!("slot count differs after step {}: model {} exec {}", idx, self.m.handles.len(), self.ex.slots.len())));
        }
        self.sync_snaps();
        // slots whose array was replaced by this step get a fresh snapshot
        match s {
            Step::Rebind { target, .. } | Step::IfGt { target, .. } => self.snaps[*target] = self.ex.slots[*target].as_ref().map(snap),
            Step::Update { params, .. } => {
                // which parameters get a new array is the optimizer's business (C13): every parameter handle gets a
                // fresh snapshot; the arrays they held before are judged through the other live handles on them
                // (no extra clone is taken here: that would change what the optimizer sees as shared storage)
                let _ = (&nodes_before, params);
                // only the parameters that held a gradient: a parameter without one keeps its snapshot, so an optimizer
                // that writes to it (or swaps it for another parameter's values) is seen
                for p in &stepped {
                    self.snaps[*p] = self.ex.slots[*p].as_ref().map(snap);
                }
            }
            Step::Drop { h } => self.snaps[*h] = None,
            _ => {}
        }
        // forward values of new results
        let new_slots: Vec<usize> = match s {
            Step::Apply(_) | Step::Leaf { .. } => (handles_before..self.m.handles.len()).collect(),
            Step::Rebind { target, .. } | Step::IfGt { target, .. } => vec![*target],
            _ => vec![],
        };
        for &slot in &new_slots {
            if self.m.handles[slot].is_none() {
                continue;
            }
            let node = self.m.node_of(slot);
            if !node.exact {
                self.stats.exact = false;
            }
            if !node.t.all_finite() {
                return Err(HOutcome::Discard("non-finite reference value".into()));
            }
            if self.or.forward {
                let a = self.ex.get(slot);
                if let Some(d) = diff_array(a, &node.t.dims, &node.t.values(), &node.t.mags(), node.exact) {
                    if d == UNDECIDABLE {
                        return Err(HOutcome::Discard(UNDECIDABLE.into()));
                    }
                    let kind = if a.dimensions() != &node.t.dims[..] { "wrong-dimensions" } else { "value-mismatch" };
                    return Err(fail(kind, op_at(s), format!("step {} ({}): {}", idx, step_describe(s, &self.m), d), &self.stats));
                }
            }
            if self.or.result_tracking {
                if let Some(op) = &node.op {
                    // custom operations included: the executor passes a derivative exactly when an operand is tracked,
                    // and with a derivative `Array::op` returns a tracked result
                    {
                        let got = probe_tracked(self.ex.get(slot));
                        let want = self.m.handle(slot).tracked;
                        if got != want {
                            return Err(fail("result-tracking", op.name().to_string(), format!("step {} ({}): result tracked = {}, but {} operand is tracked", idx, step_describe(s, &self.m), got, if want { "an" } else { "no" }), &self.stats));
                        }
                    }
                }
            }
        }
        if let Step::Backward { h, seed } = s {
            self.stats.passes += 1;
            if let Some(sd) = seed {
                if !sd.iter().all(|v| is_exact_value(*v)) {
                    self.stats.exact = false;
                }
            }
            let _ = h;
            if let Err(o) = self.check_grads(idx, s) {
                return Err(o);
            }
        }
        // flag changes and clones never touch a stored gradient (checked where presence is judged)
        if matches!(s, Step::Flag { .. } | Step::Clone { .. } | Step::Drop { .. }) && self.or.grad_presence {
            if let Err(o) = self.check_grads(idx, s) {
                return Err(o);
            }
        }
        if matches!(s, Step::ClearGrad { .. } | Step::Update { .. }) && self.or.grad_absence {
            if let Err(o) = self.check_grads(idx, s) {
                return Err(o);
            }
        }
        if self.or.flags {
            for h in self.m.live_handles() {
                let got = probe_tracked(self.ex.get(h));
                self.stats.flags_compared += 1;
                if got != self.m.handle(h).tracked {
                    return Err(fail(
                        "flag-changed",
                        op_at(s),
                        format!("after step {} ({}): handle {} has tracking flag {}, expected {}", idx, step_describe(s, &self.m), h, got, self.m.handle(h).tracked),
                        &self.stats,
                    ));
                }
            }
        }
        if self.or.immutable {
            if let Some(m) = self.ex.seed_mutations.first() {
                return Err(fail("mutated", "seed".to_string(), format!("after step {} ({}): {}", idx, step_describe(s, &self.m), m), &self.stats));
            }
            for h in 0..self.ex.slots.len() {
                if let (Some(a), Some(sn)) = (&self.ex.slots[h], &self.snaps[h]) {
                    self.stats.snapshots_compared += 1;
                    let now = snap(a);
                    if now.dims != sn.dims || now.bits != sn.bits {
                        return Err(fail(
                            "mutated",
                            op_at(s),
                            format!(
                                "after step {} ({}): handle {} changed: dimensions {:?} -> {:?}, values {:?} -> {:?}",
                                idx,
                                step_describe(s, &self.m),
                                h,
                                sn.dims,
                                now.dims,
                                sn.bits.iter().take(8).map(|b| f64::from_bits(*b)).collect::<Vec<_>>(),
                                now.bits.iter().take(8).map(|b| f64::from_bits(*b)).collect::<Vec<_>>()
                            ),
                            &self.stats,
                        ));
                    }
                }
            }
        }
        Ok(())
    }

    /// the derivative-invocation log of this pass against the reference
    fn check_log(&mut self, idx: usize, s: &Step, eff: &[PassEffect]) -> Result<(), HOutcome> {
        let log: Vec<LogEntry> = self.ex.log.borrow()[self.log_seen..].to_vec();
        self.log_seen += log.len();
        let mk = |kind: &str, detail: String, st: &HStats| HOutcome::Fail(HFail { kind: kind.to_string(), at: "custom-op".into(), detail }, st.clone());
        let in_reach: std::collections::HashMap<usize, &PassEffect> = eff.iter().map(|e| (e.node, e)).collect();
        let mut pos: std::collections::HashMap<usize, usize> = std::collections::HashMap::new();
        let ids = |l: &[LogEntry]| l.iter().map(|e| e.custom_id).collect::<Vec<_>>();
        for (i, e) in log.iter().enumerate() {
            let Some(&node) = self.custom_nodes.get(e.custom_id) else { return Err(HOutcome::Internal(format!("log entry for unknown custom op {}", e.custom_id))) };
            if pos.insert(node, i).is_some() {
                return Err(mk("invoked-twice", format!("step {} ({}): the derivative of custom operation #{} (model node {}) was invoked more than once in one pass; invocation order {:?}", idx, step_describe(s, &self.m), e.custom_id, node, ids(&log)), &self.stats));
            }
            let Some(pe) = in_reach.get(&node) else {
                return Err(mk("invoked-unreachable", format!("step {} ({}): the derivative of custom operation #{} was invoked although its node is not reachable from the root through tracked operands; invocation order {:?}", idx, step_describe(s, &self.m), e.custom_id, ids(&log)), &self.stats));
            };
            if let Some((v, m)) = &pe.contrib {
                let nd = &self.m.nodes[node];
                self.stats.log_entries_checked += 1;
                let exact = self.stats.exact && m.iter().all(|x| x.abs() < 1e15) && v.iter().all(|x| x.abs() < 1e15);
                let bad = e.delta_dims != nd.t.dims || e.delta.len() != v.len() || e.delta.iter().zip(v.iter().zip(m)).any(|(g, (w, mm))| if exact { g != w } else { !close(*g, *w, *mm, false) });
                if bad {
                    return Err(mk(
                        "incomplete-adjoint",
                        format!("step {} ({}): the derivative of custom operation #{} ({:?}, dims {:?}) received delta dims {:?} values {:?}, expected the complete adjoint {:?}; invocation order {:?}", idx, step_describe(s, &self.m), e.custom_id, nd.op, nd.t.dims, e.delta_dims, e.delta, v, ids(&log)),
                        &self.stats,
                    ));
                }
            }
        }
        // every reachable custom node with a graph was invoked, and after all of its (custom) consumers
        for (cid, &node) in self.custom_nodes.iter().enumerate() {
            let nd = &self.m.nodes[node];
            if !nd.has_graph() {
                continue;
            }
            match (in_reach.contains_key(&node), pos.get(&node)) {
                (true, None) => {
                    return Err(mk("not-invoked", format!("step {} ({}): custom operation #{} is reachable from the root but its derivative was not invoked; invocation order {:?}", idx, step_describe(s, &self.m), cid, ids(&log)), &self.stats));
                }
                (true, Some(&p)) => {
                    let mut consumers = 0;
                    for (&other, &q) in pos.iter() {
                        let consumes = self.m.nodes[other].edges.iter().filter(|e| e.0 == node && e.1).count();
                        if consumes > 0 && in_reach.contains_key(&other) {
                            consumers += consumes;
                            if q > p {
                                return Err(mk("invoked-before-consumer", format!("step {} ({}): custom operation #{} was differentiated before its consumer (model node {}) had contributed; invocation order {:?}", idx, step_describe(s, &self.m), cid, other, ids(&log)), &self.stats));
                            }
                        }
                    }
                    if consumers >= 2 {
                        self.stats.logged_shared_node = true;
                    }
                }
                _ => {}
            }
        }
        Ok(())
    }

    /// compare the gradient slot of every live handle's node with the model
    fn check_grads(&mut self, idx: usize, s: &Step) -> Result<(), HOutcome> {
        let mut seen = std::collections::HashSet::new();
        for h in self.m.live_handles() {
            let nid = self.m.handle(h).node;
            if !seen.insert(nid) {
                continue;
            }
            let node = &self.m.nodes[nid];
            let a = self.ex.get(h);
            let g = a.gradient();
            let is_leaf = !node.has_graph();
            let want_value = if is_leaf { self.or.leaf_grads } else { self.or.inner_grads };
            let what = || format!("handle {} ({}, dims {:?})", h, node.op.as_ref().map(|o| format!("result of {}", o.name())).unwrap_or_else(|| "leaf".into()), node.t.dims);
            let at = node.op.as_ref().map(|o| o.name().to_string()).unwrap_or_else(|| "leaf".into());
            let mk = |kind: &str, detail: String, st: &HStats| HOutcome::Fail(HFail { kind: kind.to_string(), at: at.clone(), detail }, st.clone());
            if let Some(ga) = g.as_ref() {
                // a stored gradient is a plain array: never tracked, whatever produced it (checked with the flags)
                if self.or.flags && probe_tracked(ga) {
                    return Err(mk("gradient-is-tracked", format!("after step {} ({}): the gradient stored on {} is a tracked array", idx, step_describe(s, &self.m), what()), &self.stats));
                }
                if self.or.grad_shapes && ga.dimensions() != &node.t.dims[..] {
                    return Err(mk("gradient-shape", format!("after step {} ({}): gradient of {} has dimensions {:?}", idx, step_describe(s, &self.m), what(), ga.dimensions()), &self.stats));
                }
            }
            match (&node.grad, g.as_ref()) {
                (GradSlot::Unknown, _) => {}
                (GradSlot::None, None) => {}
                (GradSlot::None, Some(ga)) => {
                    if self.or.grad_absence {
                        return Err(mk("unexpected-gradient", format!("after step {} ({}): {} must hold no gradient but holds {:?}", idx, step_describe(s, &self.m), what(), &ga.values()[..ga.values().len().min(8)]), &self.stats));
                    }
                }
                (GradSlot::Known { .. }, None) => {
                    if want_value || (self.or.grad_presence && !node.has_graph()) {
                        return Err(mk("missing-gradient", format!("after step {} ({}): {} holds no gradient", idx, step_describe(s, &self.m), what()), &self.stats));
                    }
                }
                (GradSlot::Known { v, m }, Some(ga)) => {
                    if want_value {
                        self.stats.grads_compared += 1;
                        if let Some(d) = diff_array(ga, &node.t.dims, v, m, self.stats.exact) {
                            if d == UNDECIDABLE {
                                return Err(HOutcome::Discard(UNDECIDABLE.into()));
                            }
                            let kind = if ga.dimensions() != &node.t.dims[..] { "gradient-shape" } else { "gradient-value" };
                            return Err(mk(kind, format!("after step {} ({}): gradient of {}: {}", idx, step_describe(s, &self.m), what(), d), &self.stats));
                        }
                    }
                }
            }
        }
        Ok(())
    }

    pub fn run(mut self, hist: &History) -> (HOutcome, Interp) {
        for (i, s) in hist.steps.iter().enumerate() {
            if let Err(o) = self.step(i, s) {
                return (o, self);
            }
        }
        (HOutcome::Ok(self.stats.clone()), self)
    }
}

pub fn step_describe(s: &Step, m: &RefState) -> String {
    let dims = |hs: &[usize]| -> String {
        hs.iter()
            .map(|&h| match m.handles.get(h).and_then(|x| x.as_ref()) {
                Some(hd) => format!("h{}{:?}{}", h, m.nodes[hd.node].t.dims, if hd.tracked { "T" } else { "u" }),
                None => format!("h{}", h),
            })
            .collect::<Vec<_>>()
            .join(", ")
    };
    match s {
        Step::Leaf { dims: d, tracked, .. } => format!("leaf {:?} tracked={}", d, tracked),
        Step::Apply(a) => format!("{:?}({})", a.op, dims(&a.args)),
        Step::Rebind { target, spec } => format!("h{} = {:?}({})", target, spec.op, dims(&spec.args)),
        Step::IfGt { cond, elem, thr, target, then_, .. } => format!("if h{}[{}] > {} {{ h{} = {:?}({}) }}", cond, elem, thr, target, then_.op, dims(&then_.args)),
        Step::Backward { h, seed } => format!("backward on {} seed {:?}", dims(&[*h]), seed.as_ref().map(|s| &s[..s.len().min(8)])),
        other => format!("{:?}", other),
    }
}

/// handles a step refers to
pub fn step_refs(s: &Step) -> Vec<usize> {
    match s {
        Step::Apply(a) => a.args.clone(),
        Step::Copy { h } | Step::RefusedOp { h } | Step::ProbeSole { h } | Step::Flag { h, .. } | Step::Backward { h, .. } | Step::ReadGrad { h } | Step::ClearGrad { h, .. } | Step::Clone { h } | Step::Drop { h } => vec![*h],
        Step::Rebind { target, spec } => {
            let mut v = spec.args.clone();
            v.push(*target);
            v
        }
        Step::IfGt { cond, target, then_, else_, .. } => {
            let mut v = then_.args.clone();
            if let Some(e) = else_ {
                v.extend(e.args.iter())
            }
            v.push(*cond);
            v.push(*target);
            v
        }
        Step::Update { params, .. } => params.clone(),
        Step::Leaf { .. } => vec![],
    }
}
