//! Entry points for coverage-guided fuzzing: bytes -> recipe -> the same typed cases, executor and oracles
//! as the proptest checks. No state survives an iteration (corgi has no globals; logs live in the case).

use crate::c10::Case10;
use crate::c12::Case12;
use crate::c17::{Case17, R17};
use crate::histcase::HistCase;
use crate::opcase::*;
use crate::runner::*;
use crate::vals::*;
use refmodel::elab::*;
use refmodel::ir::OpKind;
use refmodel::tensor::*;
use serde_json::Value;

pub struct FuzzFail {
    pub property: String,
    pub kind_tag: String,
    pub case: Value,
    pub fail: Fail,
}

fn instrs(data: &[u8]) -> Vec<Instr> {
    data.chunks_exact(8).map(|c| [c[0], c[1], c[2], c[3], c[4], c[5], c[6], c[7]]).collect()
}

fn judge<C: CaseKind>(property: &str, case: C) -> Option<FuzzFail> {
    match case.run().verdict {
        Verdict::Fail(f) => Some(FuzzFail { property: property.to_string(), kind_tag: C::KIND.to_string(), case: serde_json::to_value(&case).unwrap(), fail: f }),
        _ => None,
    }
}

fn dims_from(b: &[u8], max_rank: usize, max_size: usize) -> Vec<usize> {
    let rank = 1 + (b[0] as usize * max_rank >> 8);
    (0..rank).map(|k| 1 + (b[1 + k % (b.len() - 1)] as usize * max_size >> 8)).collect()
}

/// one operation on fresh leaves: forward value / refusal (C04-C07) or operand gradients (C02)
fn single_op(property: &str, data: &[u8]) -> Option<FuzzFail> {
    if data.len() < 16 {
        return None;
    }
    let a = dims_from(&data[0..6], 4, 5);
    let mut b = dims_from(&data[6..12], 4, 5);
    let p = &data[12..16];
    // relate b to a most of the time so that admissible pairs are common
    if p[0] % 4 != 0 {
        let drop = (p[1] as usize) % a.len();
        b = a[drop..].to_vec();
        for (i, x) in b.iter_mut().enumerate() {
            if (p[2] >> (i % 8)) & 1 == 1 {
                *x = 1;
            }
        }
    }
    let vseed = data.iter().fold(0u64, |h, x| crate::runner::mix(h ^ *x as u64));
    let leaf = |d: &[usize], kind: VKind, salt: u64, tracked: bool| LeafSpec { dims: d.to_vec(), vals: gen_vals(vseed ^ salt, numel(d), kind), tracked };
    match property {
        "C04" => {
            let op = match p[3] % 6 {
                0 => OpKind::Add,
                1 => OpKind::Sub,
                2 => OpKind::Mul,
                3 => OpKind::Div,
                4 => OpKind::Axpy(0.0),
                _ => OpKind::Axpy((p[1] as f64 - 128.0) / 16.0),
            };
            judge(property, FwdCase { op, leaves: vec![leaf(&a, VKind::Signed, 1, false), leaf(&b, VKind::Signed, 2, false)], force_exact: None, second_is_view_of_first: None })
        }
        "C05" => {
            let cfgs = crate::gens::matmul_cfgs(&[(1 + p[0] as usize % 4, 1 + p[1] as usize % 4, 1 + p[2] as usize % 4)], true, 2, 3);
            let cfg = &cfgs[(vseed as usize) % cfgs.len()];
            judge(property, FwdCase { op: cfg.op(), leaves: cfg.leaves([false, false, false]), force_exact: None, second_is_view_of_first: None })
        }
        "C06" => {
            let (rows, cols) = (1 + p[0] as usize % 7, 1 + p[1] as usize % 7);
            let (fr, fc) = ((1 + p[2] as usize % 3).min(rows), (1 + p[3] as usize % 3).min(cols));
            let mut image: Vec<usize> = match data[0] % 4 {
                0 => vec![],
                1 => vec![1],
                2 => vec![2],
                _ => vec![2, 2],
            };
            let depth = 1 + data[1] as usize % 3;
            image.extend([depth, rows, cols]);
            let filters = vec![1 + data[2] as usize % 3, depth, fr, fc];
            judge(property, FwdCase { op: OpKind::Conv { sr: 1 + data[3] as usize % 3, sc: 1 + data[4] as usize % 3 }, leaves: vec![leaf(&image, VKind::Int, 1, false), leaf(&filters, VKind::Int, 2, false)], force_exact: None, second_is_view_of_first: None })
        }
        "C07" => {
            let op = match p[3] % 8 {
                0 => OpKind::Sum(p[1] as usize % (a.len() + 1)),
                1 => {
                    let t = shapes_with_numel(numel(&a));
                    OpKind::Reshape(t[p[1] as usize * t.len() / 256].clone())
                }
                2 => OpKind::Neg,
                3 => OpKind::Relu,
                4 => OpKind::Sigmoid,
                5 => OpKind::Softmax,
                6 => OpKind::Exp,
                _ => OpKind::ScaleR((p[1] as f64 - 128.0) / 32.0),
            };
            judge(property, FwdCase { op, leaves: vec![leaf(&a, VKind::Small, 1, false)], force_exact: None, second_is_view_of_first: None })
        }
        _ => {
            // C02: gradients of one operation
            let (op, leaves) = match p[3] % 10 {
                0 => (OpKind::Add, vec![leaf(&a, VKind::Signed, 1, true), leaf(&b, VKind::Signed, 2, p[1] & 1 == 1)]),
                1 => (OpKind::Mul, vec![leaf(&a, VKind::Signed, 1, p[1] & 1 == 1), leaf(&b, VKind::Signed, 2, true)]),
                2 => (OpKind::Div, vec![leaf(&a, VKind::Signed, 1, true), leaf(&b, VKind::Signed, 2, true)]),
                3 => (OpKind::Sub, vec![leaf(&a, VKind::Signed, 1, true), leaf(&b, VKind::Signed, 2, true)]),
                4 => (OpKind::Sum(p[1] as usize % (a.len() + 1)), vec![leaf(&a, VKind::Signed, 1, true)]),
                5 => (OpKind::Powf([-2.0, -1.0, 0.5, 1.5, 3.0, 0.0][p[1] as usize % 6]), vec![leaf(&a, VKind::Pos, 1, true)]),
                6 => (OpKind::Softmax, vec![leaf(&a, VKind::Small, 1, true)]),
                7 => (OpKind::Ln, vec![leaf(&a, VKind::Pos, 1, true)]),
                8 => (OpKind::Recip, vec![leaf(&a, VKind::Pos, 1, true)]),
                _ => (OpKind::Sigmoid, vec![leaf(&a, VKind::Small, 1, true)]),
            };
            let mut st = refmodel::model::RefState::forward_only();
            let hs: Vec<usize> = leaves.iter().map(|l| st.new_leaf(&l.dims, &l.vals, false)).collect();
            let out = st.eval(&op, &hs).ok()?;
            let seed = Some(gen_vals(vseed ^ 9, out.numel(), VKind::Int));
            judge("C02", GradCase { op, leaves, seed, uses: 1 + (p[0] as usize % 2), passes: 1, same_operand: false, detached_clone: 0, view_of_first: None, swap_operands: false })
        }
    }
}

/// Interpret fuzzer bytes as a case of `property` and judge it with that property's oracle.
pub fn fuzz_one(property: &str, data: &[u8]) -> Option<FuzzFail> {
    if data.len() < 8 {
        return None;
    }
    let exact = data[0] & 1 == 0;
    let t = Tier::Quick;
    match property {
        "C02" | "C04" | "C05" | "C06" | "C07" => single_op(property, data),
        "C01" => {
            let mut cfg = GenCfg::programs(exact);
            cfg.max_steps = 24;
            judge(property, HistCase { oracle: "c01".into(), hist: elaborate(&cfg, &instrs(&data[1..])) })
        }
        "C03" => {
            let mut cfg = GenCfg::programs(true);
            cfg.kinds.push((Kind::Backward, 6));
            cfg.max_steps = 20;
            judge(property, HistCase { oracle: "c03".into(), hist: elaborate(&cfg, &instrs(&data[1..])) })
        }
        "C08" => judge(property, HistCase { oracle: "c08".into(), hist: elaborate(&crate::c08::cfg_for(t, exact), &instrs(&data[1..])) }),
        "C09" => judge(property, HistCase { oracle: "c09".into(), hist: elaborate(&crate::c09::cfg_for(t, exact), &instrs(&data[1..])) }),
        "C10" => judge(property, Case10 { hist: elaborate(&crate::c10::cfg_for(t, exact), &instrs(&data[1..])) }),
        "C11" => judge(property, HistCase { oracle: "c11".into(), hist: elaborate(&crate::c11::custom_cfg(t, exact), &instrs(&data[1..])) }),
        "C12" => {
            let n = (data.len() - 1) / 3;
            let (choices, prog) = data[1..].split_at(n.max(1).min(data.len() - 1));
            judge(property, Case12 { base: elaborate(&crate::c12::base_cfg(exact, t), &instrs(prog)), choices: choices.to_vec() })
        }
        "C17" => {
            if data.len() < 17 {
                return None;
            }
            let mut p = [0u8; 8];
            p.copy_from_slice(&data[1..9]);
            let vseed = u64::from_le_bytes([data[9], data[10], data[11], data[12], data[13], data[14], data[15], data[16]]);
            let case: Case17 = crate::c17::build(&crate::c17::base_cfg(exact, t), &R17 { prog: instrs(&data[17..]), p, vseed })?;
            judge(property, case)
        }
        "C18" => judge(property, HistCase { oracle: "c18".into(), hist: elaborate(&crate::c18::cfg_for(t, exact), &instrs(&data[1..])) }),
        _ => None,
    }
}

pub const FUZZ_PROPERTIES: [&str; 14] = ["C01", "C02", "C03", "C04", "C05", "C06", "C07", "C08", "C09", "C10", "C11", "C12", "C17", "C18"];
