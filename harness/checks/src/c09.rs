//! C09 Tracking decides exactly where gradients are computed and stored.

use crate::c01::recipe_strategy;
use crate::exec::*;
use crate::gens::*;
use crate::histcase::*;
use crate::opcase::*;
use crate::runner::*;
use crate::vals::*;
use corgi::numbers::Float;
use refmodel::elab::*;
use refmodel::ir::*;
use refmodel::tensor::*;
use serde::{Deserialize, Serialize};
use serde_json::{json, Value};

/// (a) a built-in operation's result is tracked iff an operand is; (b) a result of untracked operands keeps
/// no reference to them: each operand can be moved into a Vec while the result is alive.
#[derive(Clone, Debug, Serialize, Deserialize)]
pub struct IffCase {
    pub op: OpKind,
    pub leaves: Vec<LeafSpec>,
}

impl CaseKind for IffCase {
    const KIND: &'static str = "c09-iff";
    fn size(&self) -> usize {
        self.leaves.iter().map(|l| l.vals.len() + l.dims.len()).sum()
    }
    fn sample(&self) -> Value {
        json!({"op": format!("{:?}", self.op), "operand_dims": self.leaves.iter().map(|l| l.dims.clone()).collect::<Vec<_>>(), "tracked": self.leaves.iter().map(|l| l.tracked).collect::<Vec<_>>()})
    }
    fn run(&self) -> Outcome {
        let mut k = KeyHasher::new("iff");
        k.s(&format!("{:?}", self.op));
        for l in &self.leaves {
            k.us(&l.dims).b(l.tracked);
        }
        let any = self.leaves.iter().any(|l| l.tracked);
        let classes = vec![format!("op:{}", op_param_class(&self.op)), format!("tracked:{}", self.leaves.iter().map(|l| if l.tracked { 'T' } else { 'u' }).collect::<String>())];
        let mut ex = Exec::new();
        for l in &self.leaves {
            if ex.step(&Step::Leaf { dims: l.dims.clone(), vals: l.vals.clone(), tracked: l.tracked }).is_err() {
                return Outcome::internal("leaf".into());
            }
        }
        let args: Vec<usize> = (0..self.leaves.len()).collect();
        let r = match guarded(|| ex.eval(&self.op, &args)) {
            Ok(r) => r,
            Err(_) => return Outcome::discard("operation refused these operands"),
        };
        let sig = |kind: &str| format!("{}:{}", kind, op_param_class(&self.op));
        let got = probe_tracked(&r);
        if got != any {
            return Outcome::fail("result-tracking", sig("result-tracking"), format!("{:?} on operands tracked {:?}: result tracked = {}, expected {}", self.op, self.leaves.iter().map(|l| l.tracked).collect::<Vec<_>>(), got, any), k.finish(), classes);
        }
        // the flags of the operands are untouched by building the operation
        for (i, l) in self.leaves.iter().enumerate() {
            if probe_tracked(ex.get(i)) != l.tracked {
                return Outcome::fail("flag-changed", sig("flag-changed"), format!("{:?}: building the operation changed the tracking flag of operand {}", self.op, i), k.finish(), classes);
            }
        }
        if !any && !matches!(self.op, OpKind::Reshape(_) | OpKind::Sum(0)) {
            // views (reshape, sum(0)) legitimately share storage; everything else must let go of its operands
            for i in 0..self.leaves.len() {
                let a = ex.slots[i].take().unwrap();
                if guarded(move || Vec::<Float>::from(a)).is_err() {
                    return Outcome::fail("operand-retained", sig("operand-retained"), format!("{:?} on untracked operands: the result keeps a reference to operand {} (it cannot be moved into a Vec while the result is alive)", self.op, i), k.finish(), classes);
                }
            }
        }
        drop(r);
        Outcome::pass(true, k.finish(), classes)
    }
}

fn iff_cases() -> Vec<IffCase> {
    use OpKind::*;
    let mut out = vec![];
    let leaf = |d: &[usize], kind: VKind, tr: bool| LeafSpec { dims: d.to_vec(), vals: gen_vals(9, numel(d), kind), tracked: tr };
    let unary: Vec<(OpKind, VKind)> = vec![(Neg, VKind::Int), (ScaleR(2.0), VKind::Int), (ScaleL(2.0), VKind::Int), (Powf(2.0), VKind::Int), (Powf(0.5), VKind::Pos), (Ln, VKind::Pos), (Exp, VKind::Small), (Recip, VKind::Pos), (Sum(0), VKind::Int), (Sum(1), VKind::Int), (Sum(2), VKind::Int), (Reshape(vec![6]), VKind::Int), (Reshape(vec![3, 2]), VKind::Int), (Relu, VKind::Int), (Sigmoid, VKind::Small), (Softmax, VKind::Small)];
    for d in [&[2usize, 3][..], &[6, 1], &[1, 2, 3]] {
        for (op, kind) in &unary {
            for tr in [false, true] {
                out.push(IffCase { op: op.clone(), leaves: vec![leaf(d, *kind, tr)] });
            }
        }
    }
    for (a, b) in [(&[2usize, 3][..], &[2usize, 3][..]), (&[3], &[2, 3]), (&[2, 1, 3], &[1, 2, 1])] {
        for op in [Add, Sub, Mul, Div, Axpy(2.0)] {
            for tr in 0..4 {
                out.push(IffCase { op: op.clone(), leaves: vec![leaf(a, VKind::Pos, tr & 1 == 1), leaf(b, VKind::Pos, tr & 2 == 2)] });
            }
        }
    }
    for cfg in matmul_cfgs(&[(2, 3, 2), (1, 2, 1)], true, 2, 2) {
        let n = if cfg.c.is_some() { 8 } else { 4 };
        for tr in 0..n {
            out.push(IffCase { op: cfg.op(), leaves: cfg.leaves([tr & 1 == 1, tr & 2 == 2, tr & 4 == 4]) });
        }
    }
    // value-dependent shortcuts: every case again with each operand in turn holding only zeros / only ones
    let base = out.clone();
    for c in base.iter().filter(|c| c.leaves.iter().map(|l| l.vals.len()).sum::<usize>() <= 24) {
        for which in 0..c.leaves.len() {
            for v in [0.0, 1.0] {
                if matches!(c.op, Ln | Recip | Div | Powf(_)) && v == 0.0 {
                    continue;
                }
                let mut z = c.clone();
                z.leaves[which].vals = vec![v; z.leaves[which].vals.len()];
                out.push(z);
            }
        }
    }
    for cfg in conv_cfgs(3, 2, 2, &[1, 2], &[1, 2], &[vec![], vec![2]]) {
        for tr in 0..4 {
            out.push(IffCase { op: cfg.op(), leaves: cfg.leaves([tr & 1 == 1, tr & 2 == 2]) });
        }
    }
    out
}

/// Metamorphic: an operand that is untracked when it is used is a CONSTANT. In the variant every such operand is
/// replaced by a brand-new plain array with the same values (which shares no state with anything); values and
/// gradients (presence and bits) of every array of the base history must be identical in both runs.
#[derive(Clone, Debug, Serialize, Deserialize)]
pub struct ConstCase {
    pub base: History,
}

/// the variant history and, per base handle, the slot that holds it in the variant
pub fn untracked_as_constants(base: &History) -> Option<(History, Vec<usize>, usize)> {
    let mut m = refmodel::model::RefState::forward_only();
    let mut out = vec![];
    let mut map: Vec<usize> = vec![];
    let mut nslots = 0usize;
    let mut replaced = 0;
    for s in &base.steps {
        let before = m.handles.len();
        match s {
            // sum(0) returns a handle of the very same array, so its operand is not a constant of a new result
            Step::Apply(a) if !a.op.consumes_operand() && !matches!(a.op, OpKind::Sum(0)) => {
                let mut args = vec![];
                let mut temps = vec![];
                for &x in &a.args {
                    if !m.handle(x).tracked {
                        out.push(Step::Copy { h: map[x] });
                        temps.push(nslots);
                        args.push(nslots);
                        nslots += 1;
                        replaced += 1;
                    } else {
                        args.push(map[x]);
                    }
                }
                out.push(Step::Apply(ApplySpec { op: a.op.clone(), args }));
                map.push(nslots);
                nslots += 1;
                for t in temps {
                    out.push(Step::Drop { h: t });
                }
            }
            Step::Leaf { .. } => {
                out.push(s.clone());
                map.push(nslots);
                nslots += 1;
            }
            Step::Apply(a) => {
                out.push(Step::Apply(ApplySpec { op: a.op.clone(), args: a.args.iter().map(|x| map[*x]).collect() }));
                map.push(nslots);
                nslots += 1;
            }
            Step::Clone { h } => {
                out.push(Step::Clone { h: map[*h] });
                map.push(nslots);
                nslots += 1;
            }
            Step::Drop { h } => out.push(Step::Drop { h: map[*h] }),
            Step::Flag { h, how } => out.push(Step::Flag { h: map[*h], how: *how }),
            Step::Backward { h, seed } => out.push(Step::Backward { h: map[*h], seed: seed.clone() }),
            Step::ClearGrad { h, via_replace } => out.push(Step::ClearGrad { h: map[*h], via_replace: *via_replace }),
            // other step kinds are not generated for this campaign
            _ => return None,
        }
        m.step(s).ok()?;
        if m.handles.len() != before + matches!(s, Step::Leaf { .. } | Step::Apply(_) | Step::Clone { .. }) as usize {
            return None;
        }
    }
    Some((History { steps: out }, map, replaced))
}

impl CaseKind for ConstCase {
    const KIND: &'static str = "c09-const";
    fn size(&self) -> usize {
        self.base.steps.len() * 16
    }
    fn sample(&self) -> Value {
        hist_sample(&self.base)
    }
    fn run(&self) -> Outcome {
        let key = hist_key(&self.base);
        let Some((variant, map, replaced)) = untracked_as_constants(&self.base) else { return Outcome::discard("history uses step kinds outside this campaign") };
        let mut p = Exec::new();
        for s in &self.base.steps {
            if p.step(s).is_err() {
                return Outcome::discard("the base history panicked");
            }
        }
        let mut q = Exec::new();
        for s in &variant.steps {
            if let Err(e) = q.step(s) {
                if is_discard(&e) {
                    return Outcome::discard(&e);
                }
                return Outcome::fail("variant-panicked", "variant-panicked".into(), format!("with every untracked operand replaced by a fresh constant the history panicked although the original ran: {}\nvariant: {}", e, hist_sample(&variant)), key, vec![]);
            }
        }
        let obs = |ex: &Exec, slot: usize| ex.slots.get(slot).and_then(|x| x.as_ref()).map(|a| (a.dimensions().to_vec(), a.values().iter().map(|v| (*v as f64).to_bits()).collect::<Vec<u64>>(), a.gradient().as_ref().map(|g| (g.dimensions().to_vec(), g.values().iter().map(|v| (*v as f64).to_bits()).collect::<Vec<u64>>()))));
        let show = |o: &Option<(Vec<usize>, Vec<u64>)>| o.as_ref().map(|(d, v)| (d.clone(), v.iter().take(8).map(|b| f64::from_bits(*b)).collect::<Vec<_>>()));
        let mut compared = 0;
        for (h, &slot) in map.iter().enumerate() {
            let (Some(a), Some(b)) = (obs(&p, h), obs(&q, slot)) else { continue };
            compared += 1;
            if a.0 != b.0 || a.1 != b.1 {
                return Outcome::fail("value-differs", "value-differs".into(), format!("base handle {}: values differ when untracked operands are replaced by fresh constants\nvariant: {}", h, hist_sample(&variant)), key, vec![]);
            }
            if a.2 != b.2 {
                return Outcome::fail(
                    "untracked-operand-not-constant",
                    "untracked-operand-not-constant".into(),
                    format!("base handle {}: gradient {:?}, but {:?} when every operand that is untracked at its use is replaced by a brand-new array with the same values: something flowed into or through an untracked operand\nbase: {}\nvariant: {}", h, show(&a.2), show(&b.2), hist_sample(&self.base), hist_sample(&variant)),
                    key,
                    vec![],
                );
            }
        }
        Outcome::pass(replaced > 0 && compared > 0 && self.base.n_backward() >= 1, key, vec![format!("replaced-operands:{}", replaced.min(6)), format!("passes:{}", self.base.n_backward().min(4))])
    }
}

#[derive(Clone, Debug, Serialize, Deserialize)]
pub enum Case9 {
    H(HistCase),
    I(IffCase),
    K(ConstCase),
    M(crate::modelroute::ModelRouteCase),
}
impl CaseKind for Case9 {
    const KIND: &'static str = "c09";
    fn size(&self) -> usize {
        match self {
            Case9::H(c) => c.size(),
            Case9::I(c) => c.size(),
            Case9::K(c) => c.size(),
            Case9::M(c) => c.size(),
        }
    }
    fn sample(&self) -> Value {
        match self {
            Case9::H(c) => c.sample(),
            Case9::I(c) => c.sample(),
            Case9::K(c) => c.sample(),
            Case9::M(c) => c.sample(),
        }
    }
    fn run(&self) -> Outcome {
        match self {
            Case9::H(c) => c.run(),
            Case9::I(c) => c.run(),
            Case9::K(c) => c.run(),
            Case9::M(c) => c.run(),
        }
    }
}

pub fn cfg_for(t: Tier, exact: bool) -> GenCfg {
    use Kind::*;
    let mut cfg = GenCfg::programs(exact);
    cfg.kinds = vec![(Binary, 24), (Flag, 16), (Unary, 10), (Backward, 12), (Leaf, 8), (CloneH, 7), (SumReshape, 5), (Matmul, 6), (Custom, 3), (ReadGrad, 5), (Rebind, 3), (DropH, 3), (Conv, 2), (ClearGrad, 2), (Retrack, 4), (Refused, 2), (Update, 4)];
    cfg.max_steps = t.pick(22, 70);
    cfg.max_elems = t.pick(32, 100);
    cfg.tracked_pct = 55;
    cfg.flag_results = true;
    cfg
}

pub fn dispatch(kind: &str, v: &Value) -> Option<Outcome> {
    match kind {
        "c09" => serde_json::from_value::<Case9>(v.clone()).ok().map(|c| c.run()),
        "history" => serde_json::from_value::<HistCase>(v.clone()).ok().map(|c| c.run()),
        "c09-iff" => serde_json::from_value::<IffCase>(v.clone()).ok().map(|c| c.run()),
        "c09-const" => serde_json::from_value::<ConstCase>(v.clone()).ok().map(|c| c.run()),
        "model-route" => serde_json::from_value::<crate::modelroute::ModelRouteCase>(v.clone()).ok().map(|c| c.run()),
        // the D11 regression is a single-operation gradient case
        "grad-op" => serde_json::from_value::<GradCase>(v.clone()).ok().map(|c| c.run()),
        _ => None,
    }
}

pub fn campaigns(ctx: &Ctx) -> Stats {
    let mut st = Stats::default();
    let t = ctx.tier;
    let iff = iff_cases();
    st.merge(ctx.run_indexed("result-tracked-iff-an-operand-is", iff.len() as u64, Some("every built-in operation (all parameterisations of matmul incl. the additive term, conv, element-wise, unary, reductions, reshape) x every tracked/untracked assignment of its operands: result tracked <=> some operand tracked; with all operands untracked each operand can be moved into a Vec while the result is alive"), |i| Some(Case9::I(iff[i as usize].clone()))));
    // tracked arrays handed to Model::forward / Model::backward are used tracked: they receive what they receive by hand
    {
        let rc = crate::modelroute::route_cases("c09", ctx.seed, t == Tier::Thorough);
        st.merge(ctx.run_indexed("through-model-vs-by-hand", rc.len() as u64, None, |i| Some(Case9::M(rc[i as usize].clone()))));
    }
    let (len, total) = t.pick((18usize, 160000u64), (60, 800000));
    for (name, exact) in [("flag-histories-exact", true), ("flag-histories-mixed", false)] {
        let cfg = cfg_for(t, exact);
        st.merge(ctx.run_prop(name, total / 2, move || recipe_strategy(len), move |r| Some(Case9::H(HistCase { oracle: "c09".into(), hist: elaborate(&cfg, r) }))));
    }
    for (name, p) in [("programs-with-large-dimensions", Profile::LargeDims), ("programs-with-wide-magnitudes", Profile::WideMagnitudes)] {
        let cfg = cfg_for(t, false).with_profile(p, t == Tier::Thorough, crate::exec::IS_F32);
        st.merge(ctx.run_prop(name, profile_total(t, p), move || recipe_strategy(len), move |r| Some(Case9::H(HistCase { oracle: "c09".into(), hist: elaborate(&cfg, r) }))));
        let cfg = cfg_for(t, false).with_profile(p, t == Tier::Thorough, crate::exec::IS_F32);
        st.merge(ctx.run_prop(&format!("untracked-operands-as-constants-{}", &name[14..]), profile_total(t, p) / 2, move || recipe_strategy(len), move |r| Some(Case9::K(ConstCase { base: elaborate(&cfg, r) }))));
    }
    // untracked operand == constant (metamorphic)
    for (name, exact) in [("untracked-operands-as-constants-exact", true), ("untracked-operands-as-constants-mixed", false)] {
        use Kind::*;
        let mut cfg = GenCfg::programs(exact);
        cfg.kinds = vec![(Binary, 26), (Flag, 16), (Backward, 14), (Unary, 9), (Matmul, 9), (Leaf, 8), (CloneH, 6), (SumReshape, 5), (ClearGrad, 3), (Custom, 3), (DropH, 2), (Conv, 2), (Refused, 2)];
        cfg.max_steps = t.pick(22, 60);
        cfg.max_elems = t.pick(32, 100);
        cfg.tracked_pct = 50;
        cfg.flag_results = true;
        st.merge(ctx.run_prop(name, total / 2, move || recipe_strategy(len), move |r| Some(Case9::K(ConstCase { base: elaborate(&cfg, r) }))));
    }
    st
}

pub fn run(ctx: &Ctx) -> i32 {
    let mut st = ctx.run_replays(&dispatch);
    st.merge(campaigns(ctx));
    if ctx.tier == Tier::Thorough {
        st.merge(ctx.run_fuzz(20000, ctx.threads, &dispatch));
    }
    finish(
        ctx,
        st,
        "cases = (0) metamorphic histories in which every operand that is untracked at its use is replaced by a brand-new plain array with the same values: all values and gradients must be bitwise identical (nothing may flow into or through an untracked operand, not even hidden pending state that a later pass would pick up); (1) single operations over every tracked/untracked assignment of their operands (iff rule, and no retained reference when all operands are untracked); (2) generated histories with tracked()/untracked() and start/stop_tracking on leaves, results and clones, before and after use, with repeated passes, gradient reads (fetched gradients are used as operands again) and clears. Model: per-handle flags copied on clone; an operand contributes iff its handle was tracked when the operation was built. Oracle after every step: every live handle's flag equals the model's (so a pass leaves all flags as it found them and a flag set on a clone never changes the original), results of built-in operations are tracked iff an operand was, fetched gradients are untracked, and after a pass no array holds a gradient unless it is the root or was reached through operands that were tracked when used. Non-trivial = a history with at least one pass, or any iff case; distinct by structure.",
        &["gradient VALUES are not judged here (C01/C02); only presence where none may be stored", "Array::op results are excluded from the iff rule: the caller decides by passing a derivative", "an operation result used through handles with mixed keep-gradient flags may or may not store its own gradient: not judged"],
        json!({}),
    )
}
