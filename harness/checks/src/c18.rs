//! C18 Dropping results releases everything they held.

use crate::c01::recipe_strategy;
use crate::exec::*;
use crate::histcase::*;
use crate::runner::*;
use crate::vals::*;
use corgi::array::Array;
use corgi::layer::conv::Conv;
use corgi::layer::dense::Dense;
use corgi::layer::Layer;
use corgi::model::Model;
use corgi::numbers::Float;
use corgi::optimizer::gd::GradientDescent;
use corgi::{activation, cost, initializer};
use refmodel::elab::*;
use refmodel::ir::*;
use serde::{Deserialize, Serialize};
use serde_json::{json, Value};

/// A training loop that keeps one clone of every input and target batch and probes it once the model
/// has moved on (after the next forward): the clone must be the sole owner of its buffer.
#[derive(Clone, Debug, Serialize, Deserialize)]
pub struct LoopCase {
    /// 0: dense stack, 1: conv layer + conv layer
    pub arch: usize,
    pub batch: usize,
    pub iterations: usize,
    pub act: usize,
    pub cost: usize,
    pub skip_update_every: usize,
    pub vseed: u64,
}

/// forwards to a layer; every time the model asks for the parameters (once per update) it keeps a clone of each
/// parameter array as it is at that moment - the arrays the update is about to replace
struct KeepSpy<'a> {
    inner: &'a mut dyn Layer,
    kept: std::rc::Rc<std::cell::RefCell<Vec<Vec<Array>>>>,
}
impl<'a> Layer for KeepSpy<'a> {
    fn forward(&self, input: Array) -> Array {
        self.inner.forward(input)
    }
    fn parameters(&mut self) -> Vec<&mut Array> {
        let ps = self.inner.parameters();
        self.kept.borrow_mut().push(ps.iter().map(|p| (*p).clone()).collect());
        ps
    }
}

fn sole(a: Array) -> bool {
    guarded(move || Vec::<Float>::from(a)).is_ok()
}

impl CaseKind for LoopCase {
    const KIND: &'static str = "c18-loop";
    fn size(&self) -> usize {
        self.iterations * 8 + self.batch
    }
    fn sample(&self) -> Value {
        serde_json::to_value(self).unwrap()
    }
    fn run(&self) -> Outcome {
        let mut k = KeyHasher::new("loop");
        k.u(self.arch as u64).u(self.batch as u64).u(self.iterations as u64).u(self.act as u64).u(self.cost as u64).u(self.skip_update_every as u64);
        let classes = vec![format!("arch:{}", ["dense", "conv", "dense-64-values-watched", "conv-64-values-watched"][self.arch % 4]), format!("batch:{}", self.batch.min(3))];
        let res = guarded(|| -> Result<(), String> {
            let init = initializer::he();
            let gd = GradientDescent::new(0.05);
            let acts = [activation::relu(), activation::sigmoid(), activation::softmax()];
            let cf = if self.cost == 0 { cost::mse() } else { cost::cross_entropy() };
            let mut d1;
            let mut d2;
            let mut c1;
            let mut c2;
            let (in_dims, out_n): (Vec<usize>, usize);
            let kept_params: std::rc::Rc<std::cell::RefCell<Vec<Vec<Array>>>> = Default::default();
            let mut spies: Vec<KeepSpy> = vec![];
            let mut d3;
            let mut d4;
            let mut c3;
            let layers: Vec<&mut dyn Layer> = if self.arch == 2 {
                // parameters with 64 values and more, watched: the arrays an update replaces must be released
                d3 = Dense::new(8, 8, &init, Some(&acts[self.act % 2]));
                d4 = Dense::new(8, 2, &init, Some(&acts[if self.cost == 1 { 2 } else { self.act % 3 }]));
                in_dims = if self.batch == 0 { vec![8] } else { vec![self.batch, 8] };
                out_n = 2 * self.batch.max(1);
                spies.push(KeepSpy { inner: &mut d3, kept: kept_params.clone() });
                spies.push(KeepSpy { inner: &mut d4, kept: kept_params.clone() });
                spies.iter_mut().map(|s| s as &mut dyn Layer).collect()
            } else if self.arch == 3 {
                c3 = Conv::new((4, 4, 2, 2), (1, 1), &init, Some(activation::sigmoid()));
                in_dims = if self.batch == 0 { vec![4, 3, 3] } else { vec![self.batch, 4, 3, 3] };
                out_n = 16 * self.batch.max(1);
                spies.push(KeepSpy { inner: &mut c3, kept: kept_params.clone() });
                spies.iter_mut().map(|s| s as &mut dyn Layer).collect()
            } else if self.arch == 0 {
                d1 = Dense::new(3, 4, &init, Some(&acts[self.act % 2]));
                d2 = Dense::new(4, 2, &init, Some(&acts[if self.cost == 1 { 2 } else { self.act % 3 }]));
                in_dims = if self.batch == 0 { vec![3] } else { vec![self.batch, 3] };
                out_n = 2 * self.batch.max(1);
                vec![&mut d1, &mut d2]
            } else {
                c1 = Conv::new((2, 1, 2, 2), (1, 1), &init, Some(activation::sigmoid()));
                c2 = Conv::new((1, 2, 2, 2), (1, 1), &init, Some(activation::sigmoid()));
                in_dims = if self.batch == 0 { vec![1, 4, 4] } else { vec![self.batch, 1, 4, 4] };
                out_n = 4 * self.batch.max(1);
                vec![&mut c1, &mut c2]
            };
            let mut model = Model::new(layers, &gd, &cf);
            let n_in: usize = in_dims.iter().product();
            let mut kept: Vec<(usize, Array, Array)> = vec![];
            for it in 0..self.iterations {
                let x = Array::from((in_dims.clone(), fls(&gen_vals(self.vseed + it as u64, n_in, VKind::Small))));
                let out = model.forward(x.clone());
                let tdims = out.dimensions().to_vec();
                if tdims.iter().product::<usize>() != out_n {
                    return Err(format!("unexpected output dimensions {:?}", tdims));
                }
                let target = Array::from((tdims, fls(&gen_vals(self.vseed ^ (it as u64 + 99), out_n, VKind::Pos))));
                drop(out);
                // the model has moved on from every earlier iteration: their batches must be released
                for (j, xi, ti) in kept.drain(..) {
                    if !sole(xi) {
                        return Err(format!("LEAK: the input batch of iteration {} is still referenced after the forward pass of iteration {}", j, it));
                    }
                    if !sole(ti) {
                        return Err(format!("LEAK: the target batch of iteration {} is still referenced after the forward pass of iteration {}", j, it));
                    }
                }
                // so must the parameter arrays that earlier updates replaced
                for (u, ps) in kept_params.borrow_mut().drain(..).enumerate() {
                    for (pi, p) in ps.into_iter().enumerate() {
                        let n = p.values().len();
                        if !sole(p) {
                            return Err(format!("LEAK: parameter array {} ({} values) of layer call {} replaced by an earlier update is still referenced after the forward pass of iteration {}", pi, n, u, it));
                        }
                    }
                }
                let _loss = model.backward(target.clone());
                if self.skip_update_every == 0 || it % self.skip_update_every != self.skip_update_every - 1 {
                    model.update();
                }
                kept.push((it, x, target));
            }
            Ok(())
        });
        match res {
            Ok(Ok(())) => Outcome::pass(self.iterations >= 2, k.finish(), classes),
            Ok(Err(m)) if m.starts_with("LEAK") => Outcome::fail("leak", "leak:training-loop".into(), format!("{} ({:?})", m, self), k.finish(), classes),
            Ok(Err(m)) => Outcome::internal(m),
            Err(p) => Outcome::fail("unexpected-panic", "unexpected-panic:training-loop".into(), format!("training loop panicked: {} ({:?})", p, self), k.finish(), classes),
        }
    }
}

#[derive(Clone, Debug, Serialize, Deserialize)]
pub enum Case18 {
    H(HistCase),
    L(LoopCase),
}
impl CaseKind for Case18 {
    const KIND: &'static str = "c18";
    fn size(&self) -> usize {
        match self {
            Case18::H(c) => c.size(),
            Case18::L(c) => c.size(),
        }
    }
    fn sample(&self) -> Value {
        match self {
            Case18::H(c) => c.sample(),
            Case18::L(c) => c.sample(),
        }
    }
    fn run(&self) -> Outcome {
        match self {
            Case18::H(c) => c.run(),
            Case18::L(c) => c.run(),
        }
    }
}

pub fn cfg_for(t: Tier, exact: bool) -> GenCfg {
    use Kind::*;
    let mut cfg = GenCfg::programs(exact);
    cfg.kinds = vec![(Binary, 24), (Backward, 14), (Unary, 10), (DropH, 12), (Probe, 10), (Leaf, 7), (SumReshape, 6), (Matmul, 6), (CloneH, 5), (Rebind, 4), (Custom, 4), (ClearGrad, 4), (ReadGrad, 4), (Conv, 3), (Update, 3), (IfGt, 2), (Flag, 2), (Retrack, 4), (Refused, 2)];
    cfg.max_steps = t.pick(26, 100);
    cfg.max_elems = t.pick(32, 100);
    cfg.final_release_probe = true;
    cfg
}

pub fn dispatch(kind: &str, v: &Value) -> Option<Outcome> {
    match kind {
        "c18" => serde_json::from_value::<Case18>(v.clone()).ok().map(|c| c.run()),
        "history" => serde_json::from_value::<HistCase>(v.clone()).ok().map(|c| c.run()),
        "c18-loop" => serde_json::from_value::<LoopCase>(v.clone()).ok().map(|c| c.run()),
        _ => None,
    }
}

pub fn run(ctx: &Ctx) -> i32 {
    let mut st = ctx.run_replays(&dispatch);
    let t = ctx.tier;
    let (len, total) = t.pick((22usize, 200000u64), (90, 600000));
    for (name, exact) in [("histories-exact", true), ("histories-mixed", false)] {
        let cfg = cfg_for(t, exact);
        st.merge(ctx.run_prop(name, total / 2, move || recipe_strategy(len), move |r| Some(Case18::H(HistCase { oracle: "c18".into(), hist: elaborate(&cfg, r) }))));
    }
    // an array against a reshaped view of itself: once every result and view is gone, the array owns its buffer alone and
    // behaves like a new one
    {
        let va = crate::gens::view_alias_cases();
        st.merge(ctx.run_indexed("operand-is-a-view-of-the-other-then-released", va.len() as u64, None, |i| {
            let mut hist = va[i as usize].history();
            // slots: 0 the array, 1 an unused second leaf, 2.. the view and the results
            let slots = hist.steps.iter().filter(|s| matches!(s, Step::Leaf { .. } | Step::Apply(_) | Step::Clone { .. })).count();
            for h in (1..slots).rev() {
                hist.steps.push(Step::Drop { h });
            }
            hist.steps.push(Step::ProbeSole { h: 0 });
            Some(Case18::H(HistCase { oracle: "c18".into(), hist }))
        }));
    }
    for (name, p) in [("programs-with-large-dimensions", Profile::LargeDims), ("programs-with-wide-magnitudes", Profile::WideMagnitudes)] {
        let cfg = cfg_for(t, false).with_profile(p, t == Tier::Thorough, crate::exec::IS_F32);
        st.merge(ctx.run_prop(name, profile_total(t, p), move || recipe_strategy(len), move |r| Some(Case18::H(HistCase { oracle: "c18".into(), hist: elaborate(&cfg, r) }))));
    }
    // training loops: 2 architectures x batch {unbatched,1,2,3} x activations x costs x update skipping
    let iters = t.pick(4usize, 12);
    st.merge(ctx.run_indexed("training-loops", 4 * 4 * 3 * 2 * 3, None, |i| {
        let arch = (i % 4) as usize;
        let batch = ((i / 4) % 4) as usize;
        let act = ((i / 16) % 3) as usize;
        let costk = ((i / 48) % 2) as usize;
        let skip = [0usize, 2, 3][((i / 96) % 3) as usize];
        Some(Case18::L(LoopCase { arch, batch, iterations: iters, act, cost: if arch % 2 == 1 { 0 } else { costk }, skip_update_every: skip, vseed: i * 1000 + ctx.seed }))
    }));
    if ctx.tier == Tier::Thorough {
        st.merge(ctx.run_fuzz(20000, ctx.threads, &dispatch));
    }
    finish(
        ctx,
        st,
        "cases = (1) generated histories (operations, passes with stored gradients, gradient reads and clears, updates, clones, re-binding, drops) with ownership probes inserted wherever the model says every result derived from a leaf has been dropped, and a final phase that drops every operation result and probes every remaining array; the probe moves the only handle into Vec::<Float>::from(..), which succeeds iff nothing else holds the buffer, then rebuilds the array so the history continues; (2) training loops (dense stack / two conv layers, unbatched and batched, three activations, both costs, updates sometimes skipped) that keep one clone of each input and target batch and probe it after the model's next forward pass. Non-trivial = a probe after at least one backward pass, or a loop of >= 2 iterations; distinct by structure.",
        &["the model's ownership rule: a handle is the sole owner iff it is the only live handle on its buffer (clones and reshape views share it) and no live array records an array with that buffer as operand", "seeds are always fresh arrays; fetched gradient handles are never probed themselves (their sharing with other gradient slots is an implementation detail), but they stay alive while leaves are probed"],
        json!({}),
    )
}
