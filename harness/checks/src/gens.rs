//! Shape / parameter enumerators shared by the single-operation checks.

use crate::opcase::*;
use crate::vals::*;
use refmodel::ir::OpKind;
use refmodel::tensor::*;

/// the shape set of the quick gradient checks: rank <= 3 with sizes <= 3, plus rank 4 with sizes <= 2
pub fn quick_shapes() -> Vec<Vec<usize>> {
    let mut v = all_shapes(3, 3);
    v.extend(all_shapes(4, 2).into_iter().filter(|s| s.len() == 4));
    v
}

/// all admissible (broadcast-compatible) ordered pairs among `shapes`
pub fn admissible_pairs(shapes: &[Vec<usize>]) -> Vec<(Vec<usize>, Vec<usize>)> {
    let mut v = vec![];
    for a in shapes {
        for b in shapes {
            if broadcast_dims(a, b).is_some() {
                v.push((a.clone(), b.clone()));
            }
        }
    }
    v
}

#[derive(Clone, Debug)]
pub struct MatmulCfg {
    pub a: Vec<usize>,
    pub b: Vec<usize>,
    pub ta: bool,
    pub tb: bool,
    pub c: Option<Vec<usize>>,
}

fn mat_dims(lead: &[usize], r: usize, c: usize, t: bool) -> Vec<usize> {
    let mut d = lead.to_vec();
    if t {
        d.extend([c, r]);
    } else {
        d.extend([r, c]);
    }
    d
}

/// leading-dimension patterns of one operand
pub fn lead_patterns(m: usize, n: usize) -> Vec<Vec<usize>> {
    vec![vec![], vec![n], vec![1], vec![m, n], vec![1, n], vec![m, 1], vec![1, 1]]
}

/// additive-term shapes for a result [lead..., rows, cols]
pub fn c_patterns(lead: &[usize], rows: usize, cols: usize) -> Vec<Option<Vec<usize>>> {
    let mut v = vec![None, Some(vec![cols]), Some(vec![rows, cols]), Some(vec![1, cols]), Some(vec![1])];
    if !lead.is_empty() {
        let mut full = lead.to_vec();
        full.extend([rows, cols]);
        v.push(Some(full));
        let mut ones = vec![1; lead.len()];
        ones.extend([1, cols]);
        v.push(Some(ones));
        // one row vector per matrix of the batch
        let mut per_matrix_row = lead.to_vec();
        per_matrix_row.extend([1, cols]);
        v.push(Some(per_matrix_row));
        if lead.len() == 2 {
            v.push(Some(vec![lead[1], rows, cols]));
            v.push(Some(vec![lead[1], 1, cols]));
            v.push(Some(vec![lead[0], 1, rows, cols]));
            v.push(Some(vec![lead[0], 1, 1, cols]));
        }
    }
    v.dedup();
    v
}

/// Admissible matmul configurations (rank >= 2 operands and the rank-1 forms of property C05).
/// `sizes`: the (rows, inner, cols) triples; `with_c`: include additive terms; (m, n): leading sizes.
pub fn matmul_cfgs(sizes: &[(usize, usize, usize)], with_c: bool, m: usize, n: usize) -> Vec<MatmulCfg> {
    let mut out = vec![];
    let leads = lead_patterns(m, n);
    for &(r, k, c) in sizes {
        for ta in [false, true] {
            for tb in [false, true] {
                for la in &leads {
                    for lb in &leads {
                        let Some(lead) = broadcast_dims(la, lb) else { continue };
                        let a = mat_dims(la, r, k, ta);
                        let b = mat_dims(lb, k, c, tb);
                        let cs = if with_c { c_patterns(&lead, r, c) } else { vec![None] };
                        for cd in cs {
                            out.push(MatmulCfg { a: a.clone(), b: b.clone(), ta, tb, c: cd });
                        }
                    }
                }
            }
        }
        // rank-1 forms
        for lb in &leads {
            // vector (one-row matrix [1,k]) x matrix
            for tb in [false, true] {
                let b = mat_dims(lb, k, c, tb);
                for cd in if with_c { c_patterns(lb, 1, c) } else { vec![None] } {
                    out.push(MatmulCfg { a: vec![k], b: b.clone(), ta: false, tb, c: cd });
                }
            }
            // vector^T ([k,1] column, rows = k, inner = 1) x matrix with inner 1
            for tb in [false, true] {
                let b = mat_dims(lb, 1, c, tb);
                for cd in if with_c { c_patterns(lb, k, c) } else { vec![None] } {
                    out.push(MatmulCfg { a: vec![k], b: b.clone(), ta: true, tb, c: cd });
                }
            }
        }
        for la in &leads {
            // matrix x vector^T (column [k,1]): cols = 1
            for ta in [false, true] {
                let a = mat_dims(la, r, k, ta);
                for cd in if with_c { c_patterns(la, r, 1) } else { vec![None] } {
                    out.push(MatmulCfg { a: a.clone(), b: vec![k], ta, tb: true, c: cd });
                }
            }
            // matrix with inner 1 x vector as one-row matrix [1,k]: cols = k
            for ta in [false, true] {
                let a = mat_dims(la, r, 1, ta);
                for cd in if with_c { c_patterns(la, r, k) } else { vec![None] } {
                    out.push(MatmulCfg { a: a.clone(), b: vec![k], ta, tb: false, c: cd });
                }
            }
        }
        // dot product of two untransposed vectors
        if r == 1 && c == 1 {
            out.push(MatmulCfg { a: vec![k], b: vec![k], ta: false, tb: false, c: None });
            if with_c {
                out.push(MatmulCfg { a: vec![k], b: vec![k], ta: false, tb: false, c: Some(vec![1]) });
            }
        }
    }
    out
}

impl MatmulCfg {
    pub fn op(&self) -> OpKind {
        OpKind::Matmul { ta: self.ta, tb: self.tb, has_c: self.c.is_some() }
    }
    /// pairing-distinct exact integer data
    pub fn leaves(&self, tracked: [bool; 3]) -> Vec<LeafSpec> {
        let mut v = vec![
            LeafSpec { dims: self.a.clone(), vals: iota(numel(&self.a), 1.0, 1.0), tracked: tracked[0] },
            LeafSpec { dims: self.b.clone(), vals: iota(numel(&self.b), 100.0, 100.0), tracked: tracked[1] },
        ];
        if let Some(c) = &self.c {
            v.push(LeafSpec { dims: c.clone(), vals: iota(numel(c), 0.5, 0.25), tracked: tracked[2] });
        }
        v
    }
}

#[derive(Clone, Debug)]
pub struct ConvCfg {
    pub image: Vec<usize>,
    pub filters: Vec<usize>,
    pub sr: usize,
    pub sc: usize,
}

pub fn conv_cfgs(max_image: usize, max_filter: usize, max_stride: usize, depths: &[usize], counts: &[usize], batches: &[Vec<usize>]) -> Vec<ConvCfg> {
    let mut out = vec![];
    for rows in 1..=max_image {
        for cols in 1..=max_image {
            for fr in 1..=max_filter.min(rows) {
                for fc in 1..=max_filter.min(cols) {
                    for sr in 1..=max_stride {
                        for sc in 1..=max_stride {
                            for &d in depths {
                                for &n in counts {
                                    for b in batches {
                                        let mut image = b.clone();
                                        image.extend([d, rows, cols]);
                                        if n == 1 {
                                            // a single filter given without the count dimension
                                            out.push(ConvCfg { image: image.clone(), filters: vec![d, fr, fc], sr, sc });
                                        }
                                        out.push(ConvCfg { image, filters: vec![n, d, fr, fc], sr, sc });
                                    }
                                }
                            }
                        }
                    }
                }
            }
        }
    }
    out
}

impl ConvCfg {
    pub fn op(&self) -> OpKind {
        OpKind::Conv { sr: self.sr, sc: self.sc }
    }
    pub fn leaves(&self, tracked: [bool; 2]) -> Vec<LeafSpec> {
        vec![
            LeafSpec { dims: self.image.clone(), vals: iota(numel(&self.image), 1.0, 1.0), tracked: tracked[0] },
            LeafSpec { dims: self.filters.clone(), vals: iota(numel(&self.filters), 64.0, 64.0), tracked: tracked[1] },
        ]
    }
    pub fn out_windows(&self) -> usize {
        let n = self.image.len();
        let f = self.filters.len();
        ((self.image[n - 2] - self.filters[f - 2]) / self.sr + 1) * ((self.image[n - 1] - self.filters[f - 1]) / self.sc + 1)
    }
    pub fn filter_count(&self) -> usize {
        if self.filters.len() == 4 {
            self.filters[0]
        } else {
            1
        }
    }
}

pub use refmodel::tensor::shapes_with_numel;

/// One operation applied to an array and a reshaped VIEW of the same array (shared storage; the view's dimensions
/// may be the array's own, a transposed-looking factorisation, or carry extra unit dimensions), in either operand
/// order, once or twice, with one or two passes. Storage identity does not make two operands the same operand.
pub fn view_alias_cases() -> Vec<GradCase> {
    use OpKind::*;
    let pairs: Vec<(Vec<usize>, Vec<usize>)> = vec![
        (vec![3], vec![3, 1]),
        (vec![3], vec![1, 3]),
        (vec![3], vec![3]),
        (vec![2, 3], vec![3, 2]),
        (vec![2, 3], vec![2, 3]),
        (vec![2, 3], vec![1, 2, 3]),
        (vec![2, 3], vec![2, 1, 3]),
        (vec![2, 2], vec![2, 2]),
        (vec![2, 2], vec![2, 1, 2]),
        (vec![2, 2], vec![1, 2, 2]),
        (vec![2, 2], vec![4, 1]),
        (vec![2, 2, 3], vec![2, 1, 2, 3]),
        (vec![2, 2, 2], vec![2, 1, 2, 2]),
        (vec![3, 1], vec![3]),
        (vec![1, 3], vec![3, 1]),
        (vec![2, 1, 2], vec![2, 2]),
    ];
    let ops: Vec<OpKind> = vec![Mul, Add, Sub, Div, Axpy(2.0), CBMul, CBAdd, Matmul { ta: false, tb: false, has_c: false }, Matmul { ta: false, tb: true, has_c: false }, Matmul { ta: true, tb: false, has_c: false }, Matmul { ta: true, tb: true, has_c: false }];
    let mut out = vec![];
    for (xd, vd) in &pairs {
        for op in &ops {
            for swap in [false, true] {
                for (uses, passes) in [(1usize, 1usize), (2, 1), (1, 2)] {
                    let n = numel(xd);
                    // distinct values with a non-trivial pattern: a wrong pairing of elements is visible
                    let vals: Vec<f64> = (0..n).map(|k| (k as f64) * 2.0 + 1.0 + if k % 2 == 0 { 0.0 } else { 4.0 }).collect();
                    let leaf = LeafSpec { dims: xd.clone(), vals, tracked: true };
                    // is the operation admissible on these two shapes?
                    let mut st = refmodel::model::RefState::forward_only();
                    let a = st.new_leaf(xd, &leaf.vals, false);
                    let b = st.new_leaf(vd, &leaf.vals, false);
                    let args = if swap { [b, a] } else { [a, b] };
                    let Ok(t) = st.eval(op, &args) else { continue };
                    let m = t.numel();
                    let seed: Vec<f64> = (0..m).map(|k| ((k * 5 + 2) % 7) as f64 - 2.0).collect();
                    out.push(GradCase { op: op.clone(), leaves: vec![leaf.clone(), leaf.clone()], seed: Some(seed), uses, passes, same_operand: false, detached_clone: 0, view_of_first: Some(vd.clone()), swap_operands: swap });
                }
            }
        }
    }
    out
}
