//! C16 Construction, row-major layout, indexing and equality are consistent.

use crate::exec::*;
use crate::opcase::all_shapes;
use crate::runner::*;
use crate::vals::*;
use corgi::arr;
use corgi::array::Array;
use corgi::numbers::Float;
use proptest::prelude::*;
use refmodel::tensor::*;
use serde::{Deserialize, Serialize};
use serde_json::{json, Value};

#[derive(Clone, Debug, Serialize, Deserialize)]
pub enum Case16 {
    /// every constructor on one shape, every index
    Construct { dims: Vec<usize>, vals: Vec<f64> },
    /// as Construct + equality, with special values of the build's float type (subnormals, signed zeros,
    /// smallest / largest normal numbers) chosen at run time
    Special { dims: Vec<usize> },
    /// construction that must be refused
    Refuse(BadCtor),
    /// equality of x (dims, vals) against variants
    Equality { dims: Vec<usize>, vals: Vec<f64> },
    /// a construction that must be refused (twice in a row), then every constructor on a valid shape in the same
    /// thread: a refusal leaves nothing behind
    AfterRefusal { bad: BadCtor, dims: Vec<usize>, vals: Vec<f64> },
    /// `arr!` invocations written out literally, nested to depth 3, valid ones and ragged ones (the macro sees the
    /// inner `arr![..]` tokens, which a macro rule may treat differently from an expression that evaluates to an array)
    MacroLiterals,
}

#[derive(Clone, Debug, Serialize, Deserialize)]
pub enum BadCtor {
    /// dimensions (containing a zero) with as many values as their product
    ZeroDim { dims: Vec<usize> },
    /// `values` values under dims
    CountMismatch { dims: Vec<usize>, values: usize },
    /// nested arrays whose shapes differ
    Nested { shapes: Vec<Vec<usize>> },
    /// zeros constructor with a zero dimension
    ZerosZeroDim { dims: Vec<usize> },
    /// the public shared-buffer constructor `From<(Vec<usize>, Rc<Vec<Float>>)>` with `values` values
    SharedBuffer { dims: Vec<usize>, values: usize },
}

/// build by nesting `From<Vec<Array>>` down to rank-1 arrays; `use_macro` goes through `arr!`
fn nested(dims: &[usize], vals: &[f64], use_macro: bool) -> Array {
    if dims.len() == 1 {
        let v: Vec<Float> = fls(vals);
        if use_macro {
            return match v.len() {
                1 => arr![v[0]],
                2 => arr![v[0], v[1]],
                3 => arr![v[0], v[1], v[2]],
                4 => arr![v[0], v[1], v[2], v[3]],
                _ => Array::from(v),
            };
        }
        return Array::from(v);
    }
    let chunk = numel(&dims[1..]);
    let mut parts: Vec<Array> = vals.chunks(chunk).map(|c| nested(&dims[1..], c, use_macro)).collect();
    if use_macro {
        match parts.len() {
            1 => {
                let a = parts.remove(0);
                arr![a]
            }
            2 => {
                let b = parts.remove(1);
                let a = parts.remove(0);
                arr![a, b]
            }
            3 => {
                let c = parts.remove(2);
                let b = parts.remove(1);
                let a = parts.remove(0);
                arr![a, b, c]
            }
            4 => {
                let d = parts.remove(3);
                let c = parts.remove(2);
                let b = parts.remove(1);
                let a = parts.remove(0);
                arr![a, b, c, d]
            }
            _ => Array::from(parts),
        }
    } else {
        Array::from(parts)
    }
}

fn bits(a: &Array) -> Vec<u64> {
    a.values().iter().map(|v| (*v as f64).to_bits()).collect()
}

fn check_layout(what: &str, a: &Array, dims: &[usize], vals: &[f64]) -> Result<(), String> {
    if a.dimensions() != dims {
        return Err(format!("{}: dimensions {:?}, expected {:?}", what, a.dimensions(), dims));
    }
    let want: Vec<u64> = vals.iter().map(|v| ((*v as Float) as f64).to_bits()).collect();
    if bits(a) != want {
        return Err(format!("{}: values {:?}, expected {:?} (row-major)", what, a.values(), vals));
    }
    Ok(())
}

fn run_construct(dims: &[usize], vals: &[f64]) -> Result<(), (String, String)> {
    let e = |k: &str, d: String| (k.to_string(), d);
    let n = numel(dims);
    let a = guarded(|| arr(dims, vals)).map_err(|p| e("unexpected-panic:from-dims-values", format!("Array::from(({:?}, values)) panicked: {}", dims, p)))?;
    check_layout("From<(dims, values)>", &a, dims, vals).map_err(|d| e("layout:from-dims-values", d))?;
    // shared buffer
    let sb = guarded(|| Array::from((dims.to_vec(), std::rc::Rc::new(fls(vals))))).map_err(|p| e("unexpected-panic:from-shared-buffer", format!("Array::from(({:?}, Rc<values>)) panicked: {}", dims, p)))?;
    check_layout("From<(dims, Rc<values>)>", &sb, dims, vals).map_err(|d| e("layout:from-shared-buffer", d))?;
    // flat vector
    let f = guarded(|| Array::from(fls(vals))).map_err(|p| e("unexpected-panic:from-vec", format!("Array::from(values) panicked: {}", p)))?;
    check_layout("From<Vec<Float>>", &f, &[n], vals).map_err(|d| e("layout:from-vec", d))?;
    // zeros
    let z = guarded(|| Array::from(dims.to_vec())).map_err(|p| e("unexpected-panic:zeros", format!("Array::from({:?}) panicked: {}", dims, p)))?;
    check_layout("From<Vec<usize>> (zeros)", &z, dims, &vec![0.0; n]).map_err(|d| e("layout:zeros", d))?;
    // nested
    for use_macro in [false, true] {
        let tag = if use_macro { "arr!" } else { "From<Vec<Array>>" };
        let nst = guarded(|| nested(dims, vals, use_macro)).map_err(|p| e("unexpected-panic:nested", format!("nested construction ({}) of dims {:?} panicked: {}", tag, dims, p)))?;
        check_layout(tag, &nst, dims, vals).map_err(|d| e("layout:nested", d))?;
    }
    // nested construction from parts whose buffers are SHARED with other live handles (clones, reshaped views,
    // arrays recorded in a graph) in every position pattern: the result must be the same rows in the same order
    if dims.len() >= 2 {
        let chunk = numel(&dims[1..]);
        for pattern in 1..8u32 {
            let built = guarded(|| {
                let mut keep: Vec<Array> = vec![];
                let parts: Vec<Array> = vals
                    .chunks(chunk)
                    .enumerate()
                    .map(|(k, c)| {
                        let p = arr(&dims[1..], c);
                        let shared = match pattern {
                            1 => k == 0,
                            2 => k + 1 == dims[0],
                            3 => k % 2 == 0,
                            4 => k % 2 == 1,
                            5 => true,
                            6 => k == 0,
                            _ => k > 0,
                        };
                        if !shared {
                            return p;
                        }
                        match pattern {
                            // a reshaped view of a flat array stays alive
                            6 => {
                                let flat = arr(&[c.len()], c);
                                let v = flat.reshape(dims[1..].to_vec());
                                keep.push(flat);
                                v
                            }
                            // the part is recorded in a live graph
                            7 => {
                                let t = p.tracked();
                                keep.push(&t * 2.0);
                                t
                            }
                            _ => {
                                keep.push(p.clone());
                                p
                            }
                        }
                    })
                    .collect();
                let a = Array::from(parts);
                drop(keep);
                a
            })
            .map_err(|p| e("unexpected-panic:nested", format!("nested construction with shared parts (pattern {}) of dims {:?} panicked: {}", pattern, dims, p)))?;
            check_layout(&format!("From<Vec<Array>> with shared parts (pattern {})", pattern), &built, dims, vals).map_err(|d| e("layout:nested-shared", d))?;
        }
    }
    // indexing: every full multi-index and every flat index
    for flat in 0..n {
        let idx = unravel(flat, dims);
        let want = (vals[flat] as Float) as f64;
        let got = guarded(|| a[idx.clone()] as f64).map_err(|p| e("unexpected-panic:index", format!("a[{:?}] on dims {:?} panicked: {}", idx, dims, p)))?;
        if got.to_bits() != want.to_bits() {
            return Err(e("index:multi", format!("a[{:?}] on dims {:?} is {:?}, expected the row-major element {:?}", idx, dims, got, want)));
        }
        let gotf = guarded(|| a[flat] as f64).map_err(|p| e("unexpected-panic:index", format!("a[{}] on dims {:?} panicked: {}", flat, dims, p)))?;
        if gotf.to_bits() != want.to_bits() {
            return Err(e("index:flat", format!("a[{}] on dims {:?} is {:?}, expected {:?}", flat, dims, gotf, want)));
        }
    }
    Ok(())
}

fn run_equality(dims: &[usize], vals: &[f64]) -> Result<(), (String, String)> {
    let e = |k: &str, d: String| (k.to_string(), d);
    let x = arr(dims, vals);
    let n = numel(dims);
    let expect = |what: &str, other: &Array, want: bool| -> Result<(), (String, String)> {
        let got1 = guarded(|| x == *other).map_err(|p| e("unexpected-panic:eq", format!("== panicked: {}", p)))?;
        let got2 = guarded(|| *other == x).map_err(|p| e("unexpected-panic:eq", format!("== panicked: {}", p)))?;
        let ne = guarded(|| x != *other).map_err(|p| e("unexpected-panic:eq", format!("!= panicked: {}", p)))?;
        if got1 != want || got2 != want || ne == want {
            return Err(e(
                &format!("equality:{}", what),
                format!("x dims {:?} values {:?} against {} (dims {:?} values {:?}): x==y {}, y==x {}, x!=y {}; expected equality {}", dims, vals, what, other.dimensions(), other.values(), got1, got2, ne, want),
            ));
        }
        Ok(())
    };
    expect("identical-copy", &arr(dims, vals), true)?;
    expect("clone", &x.clone(), true)?;
    expect("sum(0)-alias", &x.sum(0), true)?;
    expect("tracked-copy", &arr(dims, vals).tracked(), true)?;
    // same values under every other shape with the same element count, as fresh arrays and as reshaped views
    for s in shapes_with_numel(n) {
        let same = s == dims;
        expect("same-values-other-shape", &arr(&s, vals), same)?;
        expect("reshape-view", &x.reshape(s.clone()), same)?;
        expect("reshape-view-tracked", &arr(dims, vals).tracked().reshape(s.clone()), same)?;
    }
    // one value differs
    for p in [0, n / 2, n - 1] {
        let mut v = vals.to_vec();
        v[p] += 1.0;
        expect("one-value-differs", &arr(dims, &v), false)?;
    }
    // results of operations (graph attached), and arrays holding a gradient
    let t = arr(dims, vals).tracked();
    let r = &t * 1.0;
    expect("operation-result-with-graph", &r, true)?;
    r.backward(None);
    expect("array-holding-gradient", &t, true)?;
    expect("result-after-backward", &r, true)?;
    let r2 = &t + &t;
    expect("different-result", &r2, vals.iter().all(|v| *v == 0.0))?;
    let g = arr(dims, vals);
    *g.gradient_mut() = Some(arr(dims, &vec![7.0; n]));
    expect("gradient-set-by-hand", &g, true)?;
    // the approximate comparisons of the `approx` traits agree with == on these cases: dimensions are compared too
    {
        use approx::{AbsDiffEq, RelativeEq};
        let eps = Float::EPSILON;
        let same = arr(dims, vals);
        if !x.abs_diff_eq(&same, eps) || !x.relative_eq(&same, eps, eps) {
            return Err(e("equality:approx-identical", format!("abs_diff_eq / relative_eq report dims {:?} values {:?} as different from an identical copy", dims, vals)));
        }
        for s in shapes_with_numel(n) {
            if s != dims {
                let other = arr(&s, vals);
                if x.abs_diff_eq(&other, eps) || x.relative_eq(&other, eps, eps) || other.abs_diff_eq(&x, eps) {
                    return Err(e("equality:approx-ignores-dimensions", format!("abs_diff_eq / relative_eq report dims {:?} and dims {:?} with the same values as equal", dims, s)));
                }
            }
        }
        let mut v = vals.to_vec();
        v[n - 1] += 1.0;
        let off = arr(dims, &v);
        if x.abs_diff_eq(&off, eps) || x.relative_eq(&off, eps, eps) {
            return Err(e("equality:approx-value", format!("abs_diff_eq / relative_eq report dims {:?} as equal although the last value differs by 1", dims)));
        }
    }
    // a prefix / a longer flat array
    if n > 1 {
        expect("prefix", &arr(&[n - 1], &vals[..n - 1]), false)?;
    }
    let mut longer = vals.to_vec();
    longer.push(0.0);
    expect("longer", &arr(&[n + 1], &longer), false)?;
    Ok(())
}

fn run_refuse(b: &BadCtor) -> Result<(), (String, String)> {
    let e = |k: &str, d: String| (k.to_string(), d);
    match b {
        BadCtor::ZeroDim { dims } => {
            let r = guarded(|| Array::from((dims.clone(), Vec::<Float>::new())));
            if let Ok(a) = r {
                return Err(e("not-refused:zero-dimension", format!("Array::from(({:?}, [])) must panic but returned dims {:?}", dims, a.dimensions())));
            }
        }
        BadCtor::ZerosZeroDim { dims } => {
            if let Ok(a) = guarded(|| Array::from(dims.clone())) {
                return Err(e("not-refused:zero-dimension", format!("Array::from({:?}) (zeros) must panic but returned dims {:?}", dims, a.dimensions())));
            }
        }
        BadCtor::CountMismatch { dims, values } => {
            if let Ok(a) = guarded(|| Array::from((dims.clone(), vec![1.0 as Float; *values]))) {
                return Err(e("not-refused:count-mismatch", format!("Array::from(({:?}, {} values)) must panic but returned dims {:?}", dims, values, a.dimensions())));
            }
        }
        BadCtor::SharedBuffer { dims, values } => {
            if let Ok(a) = guarded(|| Array::from((dims.clone(), std::rc::Rc::new(vec![1.0 as Float; *values])))) {
                return Err(e("not-refused:shared-buffer-constructor", format!("Array::from(({:?}, Rc<{} values>)) must panic but returned dims {:?}", dims, values, a.dimensions())));
            }
        }
        BadCtor::Nested { shapes } => {
            let r = guarded(|| {
                let parts: Vec<Array> = shapes.iter().map(|s| arr(s, &iota(numel(s), 1.0, 1.0))).collect();
                Array::from(parts)
            });
            if let Ok(a) = r {
                return Err(e("not-refused:nested-shapes-differ", format!("nested construction from arrays of shapes {:?} must panic but returned dims {:?}", shapes, a.dimensions())));
            }
        }
    }
    Ok(())
}

/// special values of the build's float type, as f64 (every one is exactly representable in `Float`)
fn special_values(n: usize) -> Vec<f64> {
    let tiny = Float::MIN_POSITIVE;
    let pool: [Float; 12] = [tiny / 4.0, -(tiny / 8.0), tiny, -tiny, 0.0, -0.0, Float::MAX, Float::MIN, Float::MAX / 2.0, Float::EPSILON, 1.0, tiny * 3.0 / 4.0];
    (0..n).map(|i| pool[(i * 5 + i / 12) % pool.len()] as f64).collect()
}

fn run_special(dims: &[usize]) -> Result<(), (String, String)> {
    let vals = special_values(numel(dims));
    run_construct(dims, &vals)?;
    // an array with a subnormal is not equal to the same array with that element replaced by zero
    let a = arr(dims, &vals);
    for (i, v) in vals.iter().enumerate() {
        if *v != 0.0 && v.abs() < Float::MIN_POSITIVE as f64 {
            let mut z = vals.clone();
            z[i] = 0.0;
            if a == arr(dims, &z) {
                return Err(("equality:subnormal-vs-zero".into(), format!("dims {:?}: the array with element {} = {:e} compares equal to the same array with 0.0 there", dims, i, v)));
            }
        }
    }
    // +0.0 and -0.0 are equal values (the elements compare equal), so arrays that differ only in the sign of a zero are equal
    {
        let n = numel(dims);
        let pz = arr(dims, &vec![0.0; n]);
        let nz = arr(dims, &vec![-0.0; n]);
        let mut mixed = vec![0.0; n];
        for (i, m) in mixed.iter_mut().enumerate() {
            if i % 2 == 1 {
                *m = -0.0;
            }
        }
        if pz != nz || nz != pz || pz != arr(dims, &mixed) || pz != -&pz {
            return Err(("equality:signed-zero".into(), format!("dims {:?}: arrays of +0.0 and of -0.0 (also the negation of a zeros array) have equal dimensions and equal values but compare unequal", dims)));
        }
    }
    if a != arr(dims, &vals) {
        return Err(("equality:special-values".into(), format!("dims {:?}: two arrays built from the same special values compare unequal", dims)));
    }
    Ok(())
}

impl CaseKind for Case16 {
    const KIND: &'static str = "c16";
    fn size(&self) -> usize {
        match self {
            Case16::Special { dims } => numel(dims) + dims.len(),
            Case16::Construct { vals, dims } | Case16::Equality { vals, dims } => vals.len() + dims.len(),
            Case16::Refuse(_) => 4,
            Case16::AfterRefusal { vals, dims, .. } => vals.len() + dims.len() + 4,
            Case16::MacroLiterals => 1,
        }
    }
    fn sample(&self) -> Value {
        match self {
            Case16::Construct { dims, .. } => json!({"construct+index": dims}),
            Case16::Special { dims } => json!({"special-values": dims}),
            Case16::Equality { dims, .. } => json!({"equality": dims}),
            Case16::Refuse(b) => json!({"refuse": format!("{:?}", b)}),
            Case16::AfterRefusal { bad, dims, .. } => json!({"refuse-twice": format!("{:?}", bad), "then-construct": dims}),
            Case16::MacroLiterals => json!("arr! literals"),
        }
    }
    fn run(&self) -> Outcome {
        let mut k = KeyHasher::new("c16");
        let (res, nontrivial, class) = match self {
            Case16::Construct { dims, vals } => {
                k.s("c").us(dims);
                (run_construct(dims, vals), dims.len() >= 2, "construct+index")
            }
            Case16::Special { dims } => {
                k.s("s").us(dims);
                (run_special(dims), true, "special-values")
            }
            Case16::Equality { dims, vals } => {
                k.s("e").us(dims);
                (run_equality(dims, vals), true, "equality")
            }
            Case16::Refuse(b) => {
                k.s(&format!("{:?}", b));
                (run_refuse(b), true, "refusal")
            }
            Case16::AfterRefusal { bad, dims, vals } => {
                k.s(&format!("after{:?}", bad)).us(dims);
                let r = run_refuse(bad)
                    .and_then(|_| run_refuse(bad).map_err(|(kd, d)| (format!("{}:when-repeated", kd), format!("the same construction, tried a second time: {}", d))))
                    .and_then(|_| run_construct(dims, vals).map_err(|(kd, d)| (format!("{}:after-a-refused-construction", kd), format!("after a refused construction ({:?}) in the same thread: {}", bad, d))));
                (r, true, "refusal-then-construction")
            }
            Case16::MacroLiterals => {
                k.s("macro-literals");
                (run_macro_literals(), true, "macro-literals")
            }
        };
        let classes = vec![format!("kind:{}", class)];
        match res {
            Ok(()) => Outcome::pass(nontrivial, k.finish(), classes),
            Err((kind, detail)) => Outcome::fail(kind.split(':').next().unwrap_or("c16"), kind.clone(), detail, k.finish(), classes),
        }
    }
}

fn run_macro_literals() -> Result<(), (String, String)> {
    let e = |k: &str, d: String| (k.to_string(), d);
    let ok = |what: &str, a: Result<Array, String>, dims: &[usize], vals: &[f64]| -> Result<(), (String, String)> {
        match a {
            Err(p) => Err(e("unexpected-panic:macro", format!("{} panicked: {}", what, p))),
            Ok(a) => check_layout(what, &a, dims, vals).map_err(|d| e("layout:macro", d)),
        }
    };
    let refused = |what: &str, a: Result<Array, String>| -> Result<(), (String, String)> {
        match a {
            Err(_) => Ok(()),
            Ok(a) => Err(e("not-refused:macro-ragged-rows", format!("{} has rows of different lengths and must panic, but returned dims {:?} values {:?}", what, a.dimensions(), a.values()))),
        }
    };
    ok("arr![arr![1,2], arr![3,4]]", guarded(|| arr![arr![1.0, 2.0], arr![3.0, 4.0]]), &[2, 2], &[1.0, 2.0, 3.0, 4.0])?;
    ok("arr![arr![1,2,3]]", guarded(|| arr![arr![1.0, 2.0, 3.0]]), &[1, 3], &[1.0, 2.0, 3.0])?;
    ok("arr![arr![1], arr![2], arr![3]]", guarded(|| arr![arr![1.0], arr![2.0], arr![3.0]]), &[3, 1], &[1.0, 2.0, 3.0])?;
    ok("arr![arr![arr![1,2],arr![3,4]], arr![arr![5,6],arr![7,8]]]", guarded(|| arr![arr![arr![1.0, 2.0], arr![3.0, 4.0]], arr![arr![5.0, 6.0], arr![7.0, 8.0]]]), &[2, 2, 2], &[1.0, 2.0, 3.0, 4.0, 5.0, 6.0, 7.0, 8.0])?;
    ok("arr![arr![arr![1],arr![2],arr![3]]]", guarded(|| arr![arr![arr![1.0], arr![2.0], arr![3.0]]]), &[1, 3, 1], &[1.0, 2.0, 3.0])?;
    // element expressions with side effects are evaluated once each, left to right
    {
        let flat = guarded(|| {
            let mut c = 0.0;
            let mut next = || {
                c += 1.0;
                c
            };
            arr![next(), next(), next()]
        });
        ok("arr![next(), next(), next()] over the counter 1, 2, 3, ..", flat, &[3], &[1.0, 2.0, 3.0])?;
        let nested = guarded(|| {
            let mut c = 0.0;
            let mut next = || {
                c += 1.0;
                c
            };
            arr![arr![next(), next()], arr![next(), next()]]
        });
        ok("arr![arr![next(), next()], arr![next(), next()]] over the counter", nested, &[2, 2], &[1.0, 2.0, 3.0, 4.0])?;
        let rows = guarded(|| {
            let mut k = 0.0;
            let mut row = || {
                k += 10.0;
                arr![k, k + 1.0]
            };
            arr![row(), row(), row()]
        });
        ok("arr![row(), row(), row()] with rows built by a stateful closure", rows, &[3, 2], &[10.0, 11.0, 20.0, 21.0, 30.0, 31.0])?;
    }
    // ragged rows, also where the lengths add up to rows x (length of the first row)
    refused("arr![arr![1,2], arr![3,4,5], arr![6]]", guarded(|| arr![arr![1.0, 2.0], arr![3.0, 4.0, 5.0], arr![6.0]]))?;
    refused("arr![arr![1,2], arr![3], arr![4,5,6]]", guarded(|| arr![arr![1.0, 2.0], arr![3.0], arr![4.0, 5.0, 6.0]]))?;
    refused("arr![arr![1], arr![2,3]]", guarded(|| arr![arr![1.0], arr![2.0, 3.0]]))?;
    refused("arr![arr![1,2,3], arr![4]]", guarded(|| arr![arr![1.0, 2.0, 3.0], arr![4.0]]))?;
    refused("arr![arr![arr![1,2],arr![3]], arr![arr![4],arr![5,6]]]", guarded(|| arr![arr![arr![1.0, 2.0], arr![3.0]], arr![arr![4.0], arr![5.0, 6.0]]]))?;
    refused("arr![arr![arr![1,2],arr![3,4]], arr![arr![5,6,7,8]]]", guarded(|| arr![arr![arr![1.0, 2.0], arr![3.0, 4.0]], arr![arr![5.0, 6.0, 7.0, 8.0]]]))?;
    refused("arr![arr![arr![1],arr![2]], arr![arr![3,4]], arr![arr![5],arr![6],arr![7]]]", guarded(|| arr![arr![arr![1.0], arr![2.0]], arr![arr![3.0, 4.0]], arr![arr![5.0], arr![6.0], arr![7.0]]]))?;
    Ok(())
}

fn refusals(shapes: &[Vec<usize>]) -> Vec<BadCtor> {
    let mut out = vec![];
    for s in shapes {
        for p in 0..s.len() {
            let mut z = s.clone();
            z[p] = 0;
            out.push(BadCtor::ZeroDim { dims: z.clone() });
            out.push(BadCtor::ZerosZeroDim { dims: z.clone() });
            out.push(BadCtor::SharedBuffer { dims: z, values: 0 });
        }
        let n = numel(s);
        out.push(BadCtor::CountMismatch { dims: s.clone(), values: n + 1 });
        if n > 1 {
            out.push(BadCtor::CountMismatch { dims: s.clone(), values: n - 1 });
        }
        out.push(BadCtor::CountMismatch { dims: s.clone(), values: 0 });
        out.push(BadCtor::CountMismatch { dims: s.clone(), values: n * 2 });
        out.push(BadCtor::SharedBuffer { dims: s.clone(), values: n + 1 });
        out.push(BadCtor::SharedBuffer { dims: s.clone(), values: 0 });
        // nested arrays: one element has another shape (different size, different rank, trailing/leading unit dimension)
        if s.len() <= 3 {
            let mut variants: Vec<Vec<usize>> = vec![];
            for p in 0..s.len() {
                let mut v = s.clone();
                v[p] += 1;
                variants.push(v);
            }
            let mut t = s.clone();
            t.push(1);
            variants.push(t);
            let mut l = vec![1];
            l.extend(s.iter());
            variants.push(l);
            if s.len() > 1 {
                variants.push(s[1..].to_vec());
                variants.push(s[..s.len() - 1].to_vec());
                if *s.last().unwrap() == 1 {
                    variants.push(s[..s.len() - 1].to_vec());
                }
                let mut r = s.clone();
                r.reverse();
                if r != *s {
                    variants.push(r);
                }
            }
            variants.push(vec![n]);
            for v in variants {
                if v != *s && !v.is_empty() {
                    out.push(BadCtor::Nested { shapes: vec![s.clone(), v.clone()] });
                    out.push(BadCtor::Nested { shapes: vec![v.clone(), s.clone()] });
                    out.push(BadCtor::Nested { shapes: vec![s.clone(), s.clone(), v.clone()] });
                    // element counts that compensate each other
                    out.push(BadCtor::Nested { shapes: vec![v.clone(), s.clone(), s.clone(), v] });
                }
            }
        }
    }
    out
}

pub fn dispatch(kind: &str, v: &Value) -> Option<Outcome> {
    match kind {
        "c16" => serde_json::from_value::<Case16>(v.clone()).ok().map(|c| c.run()),
        _ => None,
    }
}

pub fn run(ctx: &Ctx) -> i32 {
    let mut st = ctx.run_replays(&dispatch);
    let t = ctx.tier;
    let shapes = all_shapes(4, t.pick(3, 4));
    let ns = shapes.len() as u64;
    st.merge(ctx.run_indexed(
        "all-small-shapes",
        ns * 2,
        Some("all shapes of rank 1..4 with sizes 1..3 (quick) / 1..4 (thorough): every constructor (dims+values, flat vector, zeros, nested From<Vec<Array>> and arr! to depth 4), every full multi-index and flat index, and the equality matrix (copies, clones, views, other shapes with the same values, one differing value, tracked / graph / gradient variants)"),
        |i| {
            let s = &shapes[(i / 2) as usize];
            let vals = iota(numel(s), 1.0, 1.0);
            Some(if i % 2 == 0 { Case16::Construct { dims: s.clone(), vals } } else { Case16::Equality { dims: s.clone(), vals } })
        },
    ));
    st.merge(ctx.run_indexed("special-values", ns, Some("subnormals, signed zeros, smallest/largest normal numbers, epsilon through every constructor and index on all small shapes; a subnormal is not equal to zero"), |i| Some(Case16::Special { dims: shapes[i as usize].clone() })));
    let bad = refusals(&all_shapes(4, 3));
    st.merge(ctx.run_indexed("refused-constructions", bad.len() as u64, None, |i| Some(Case16::Refuse(bad[i as usize].clone()))));
    // more than 2^16 elements: flat and multi-index arithmetic in narrow integer types
    {
        let big: Vec<Vec<usize>> = vec![vec![70001], vec![300, 300], vec![2, 40000], vec![40000, 2], vec![3, 200, 150], vec![2, 2, 129, 129]];
        st.merge(ctx.run_indexed("more-than-65536-elements", big.len() as u64 * 2, None, |i| {
            let d = big[(i / 2) as usize].clone();
            let n = numel(&d);
            // position-dependent values (a wrong element is visible), exact in both float widths
            let vals: Vec<f64> = (0..n).map(|k| ((k % 4093) as f64) - 2000.0 + ((k / 4093) as f64) * 0.25).collect();
            Some(if i % 2 == 0 { Case16::Construct { dims: d, vals } } else { Case16::Equality { dims: d, vals } })
        }));
    }
    st.merge(ctx.run_indexed("arr-macro-literals", 1, None, |_| Some(Case16::MacroLiterals)));
    // a refusal (tried twice) followed by valid constructions in the same thread
    {
        let small: Vec<Vec<usize>> = vec![vec![2, 2], vec![3], vec![2, 1, 2], vec![1, 3], vec![2, 3, 2]];
        let step = (bad.len() / t.pick(400, 4000)).max(1);
        let picks: Vec<usize> = (0..bad.len()).step_by(step).collect();
        st.merge(ctx.run_indexed("refused-then-valid-constructions", picks.len() as u64, None, |i| {
            let d = small[(i as usize) % small.len()].clone();
            let vals = iota(numel(&d), 7.0, 1.0);
            Some(Case16::AfterRefusal { bad: bad[picks[i as usize]].clone(), dims: d, vals })
        }));
    }
    let (max_size, total) = t.pick((7usize, 48000u64), (10, 300000));
    let strat = move || (prop::collection::vec(1..=max_size, 1..=4), any::<u64>(), any::<bool>()).prop_map(|(d, s, e)| (d, s, e)).boxed();
    st.merge(ctx.run_prop("random-shapes-and-values", total, strat, |(d, s, e)| {
        if numel(d) > 1500 {
            return None;
        }
        let vals = gen_vals(*s, numel(d), VKind::Signed);
        Some(if *e { Case16::Equality { dims: d.clone(), vals } } else { Case16::Construct { dims: d.clone(), vals } })
    }));
    finish(
        ctx,
        st,
        "cases = (a) one shape with row-major data: all five constructors, every full multi-index and every flat index compared with the reference row-major element; (b) the equality matrix of that array against copies, clones, sum(0) aliases, reshaped views (same storage), every other shape with the same element count, one differing value, tracked / graph-carrying / gradient-holding variants, in both operand orders and with !=; (c) constructions that must panic: a zero dimension at any position, element-count mismatch, nested arrays of different shapes (other size, other rank, leading/trailing unit dimension, counts that compensate). All small shapes enumerated, larger ones sampled. Non-trivial = rank >= 2 construction/indexing, any equality matrix, any refusal; distinct by (kind, shape).",
        &["values are compared bitwise", "out-of-range indices, partial multi-indices, empty dimension lists and empty nested lists are outside the property's domain"],
        json!({}),
    )
}
