//! `Model` against the same computation done by hand.
//!
//! `Model::forward` is documented (and written) as the layers applied in order, `Model::backward(target)` as
//! `cost(&output, &target)` followed by `backward(None)` on it, returning its `sum_all()`, and `Model::update` as one
//! optimizer call over every layer's parameters. So for every stack, input, target and tracking assignment the two
//! routes run the same operations in the same order and must agree BITWISE: the output, the returned loss, and the
//! gradient stored on every parameter, on the input, on the target (and on a teacher stack's parameters when the target
//! is itself a tracked result), and, after an update, every parameter value and gradient state.
//!
//! What differs between the routes is only what `Model` does around the calls - detaching an input or a target,
//! rescaling seeds, skipping layers in `update`, keeping arrays alive - which is what this case observes. C01 reads it
//! as "gradients of a program that goes through Model are exact (equal to the hand-written program's)", C09 as
//! "an array that was tracked when it was used receives its gradient", C14 as "the step follows the gradient of the
//! loss that was returned".

use crate::exec::*;
use crate::layers::*;
use crate::runner::*;
use crate::vals::*;
use corgi::array::Array;
use corgi::layer::Layer;
use corgi::model::Model;
use corgi::optimizer::gd::GradientDescent;
use corgi::optimizer::Optimizer;
use refmodel::ops::Act;
use serde::{Deserialize, Serialize};
use serde_json::{json, Value};

#[derive(Clone, Debug, Serialize, Deserialize)]
pub struct ModelRouteCase {
    pub specs: Vec<LayerSpec>,
    pub rows: usize,
    pub cols: usize,
    /// 0 = unbatched
    pub batch: usize,
    pub pseed: u64,
    pub xseed: u64,
    pub cost: CostKind,
    pub track_input: bool,
    pub track_target: bool,
    /// 0: a fresh array; 1: the input itself when the shapes agree; 2: the (tracked) output of a second dense layer
    /// applied to the flattened input by hand - a "teacher"
    pub target_kind: u8,
    /// parameters of layers with this parity have tracking paused (start/stop_tracking), as a frozen layer would
    pub freeze_parity: u8,
    /// learning rate of the update compared at the end (also 0 and negative rates)
    pub lr: f64,
    /// after `backward`, the gradient of the first parameter of this layer is removed through a clone handle before the update
    pub drop_first_gradient_of: Option<usize>,
    pub oracle: String,
    /// a forward pass on another input BEFORE the layers are frozen (a layer that caches something about its
    /// parameters at first use must notice the flag change)
    #[serde(default)]
    pub warm_up: bool,
}

type G = Option<(Vec<usize>, Vec<u64>)>;

#[derive(Debug, PartialEq)]
struct Snap {
    out: (Vec<usize>, Vec<u64>),
    loss: u64,
    param_grads: Vec<G>,
    /// the gradient stored on the handle the forward pass returned (a result of untracked operands holds none)
    out_grad: G,
    input_grad: G,
    target_grad: G,
    teacher_grads: Vec<G>,
    params_after: Vec<(Vec<usize>, Vec<u64>, bool, bool)>,
}

fn bits(a: &Array) -> (Vec<usize>, Vec<u64>) {
    (a.dimensions().to_vec(), a.values().iter().map(|v| (*v as f64).to_bits()).collect())
}
fn grad_of(a: &Array) -> G {
    a.gradient().as_ref().map(bits)
}

impl ModelRouteCase {
    fn route(&self, via_model: bool) -> Result<Snap, String> {
        let acts = acts_for(&self.specs);
        let mut layers = build_layers(&self.specs, &acts, self.pseed, VKind::Small, None);
        if self.warm_up {
            let xd = input_dims(&self.specs, self.batch, self.rows, self.cols);
            let n: usize = xd.iter().product();
            let mut cur = arr(&xd, &gen_vals(self.xseed ^ 0x3A3A, n, VKind::Small));
            for l in layers.iter() {
                cur = l.forward(cur);
            }
            drop(cur);
        }
        for (i, l) in layers.iter_mut().enumerate() {
            if (self.freeze_parity < 2 && i % 2 == self.freeze_parity as usize) || self.freeze_parity == 3 {
                for p in l.parameters() {
                    p.stop_tracking();
                }
            }
        }
        let xd = input_dims(&self.specs, self.batch, self.rows, self.cols);
        let n: usize = xd.iter().product();
        let x = arr(&xd, &gen_vals(self.xseed, n, VKind::Small));
        let x = if self.track_input { x.tracked() } else { x };
        let ce = self.cost == CostKind::CrossEntropy;
        let cf = make_cost(self.cost);
        let gd = GradientDescent::new(fl(self.lr));
        // a teacher: one dense layer on the flattened input, built by hand, tracked parameters
        let tw = arr(&[1, n], &gen_vals(self.xseed ^ 0x7EAC, n, VKind::Small)).tracked();
        let tb = arr(&[1], &[0.5]).tracked();
        // the forward pass first (the target may depend on the output's shape)
        let mut model_holder: Option<Model> = None;
        let out;
        if via_model {
            let refs: Vec<&mut dyn Layer> = layers.iter_mut().map(|b| &mut **b as &mut dyn Layer).collect();
            let mut m = Model::new(refs, &gd, &cf);
            out = m.forward(x.clone());
            model_holder = Some(m);
        } else {
            let mut cur = x.clone();
            for l in layers.iter() {
                cur = l.forward(cur);
            }
            out = cur;
        }
        let od = out.dimensions().to_vec();
        let on: usize = od.iter().product();
        let target = match self.target_kind {
            1 if od == xd && !ce => x.clone(),
            2 if !ce => {
                // teacher output: one value, broadcast against the output by the cost
                let flat = x.reshape(vec![n, 1]);
                let t = Array::matmul((&tw, false), (&flat, false), Some(&tb));
                t.reshape(vec![1])
            }
            _ => {
                let t = arr(&od, &gen_vals(self.xseed ^ 77, on, if ce { VKind::Pos } else { VKind::Small }));
                if self.track_target {
                    t.tracked()
                } else {
                    t
                }
            }
        };
        let loss;
        if via_model {
            let m = model_holder.as_mut().unwrap();
            loss = m.backward(target.clone());
        } else {
            let err = cf(&out, &target);
            err.backward(None);
            loss = err.sum_all();
        }
        let mut snap = Snap { out: bits(&out), loss: (loss as f64).to_bits(), out_grad: grad_of(&out), param_grads: vec![], input_grad: grad_of(&x), target_grad: grad_of(&target), teacher_grads: vec![grad_of(&tw), grad_of(&tb)], params_after: vec![] };
        drop(out);
        // read the parameter gradients; then (optionally) remove one through a clone handle; then update
        if via_model {
            // the model must be dropped to reach the layers; its stored output dies with it (as in the by-hand route, where `out` was dropped)
            let m = model_holder.take().unwrap();
            drop(m);
        }
        for (i, l) in layers.iter_mut().enumerate() {
            let frozen = (self.freeze_parity < 2 && i % 2 == self.freeze_parity as usize) || self.freeze_parity == 3;
            for (pi, p) in l.parameters().into_iter().enumerate() {
                let g = grad_of(p);
                // a parameter whose tracking was off when the layer used it receives nothing; one that was tracked and
                // feeds the output receives its gradient
                if frozen && g.is_some() {
                    return Err(format!("FLAGS: parameter {} of layer {} had tracking switched off before the forward pass but holds a gradient after the backward pass (route: {})", pi, i, if via_model { "Model" } else { "by hand" }));
                }
                if !frozen && g.is_none() {
                    return Err(format!("FLAGS: parameter {} of layer {} was tracked when the layer used it but holds no gradient after the backward pass (route: {})", pi, i, if via_model { "Model" } else { "by hand" }));
                }
                snap.param_grads.push(g);
            }
        }
        if let Some(li) = self.drop_first_gradient_of {
            if let Some(l) = layers.get_mut(li) {
                if let Some(p) = l.parameters().into_iter().next() {
                    let c = p.clone();
                    c.replace_gradient();
                }
            }
        }
        if via_model {
            let refs: Vec<&mut dyn Layer> = layers.iter_mut().map(|b| &mut **b as &mut dyn Layer).collect();
            let mut m = Model::new(refs, &gd, &cf);
            m.update();
        } else {
            let ps: Vec<&mut Array> = layers.iter_mut().flat_map(|l| l.parameters()).collect();
            gd.update(ps);
        }
        for l in layers.iter_mut() {
            for p in l.parameters() {
                let (d, v) = bits(p);
                snap.params_after.push((d, v, probe_tracked(p), p.gradient().is_some()));
            }
        }
        Ok(snap)
    }
}

impl CaseKind for ModelRouteCase {
    const KIND: &'static str = "model-route";
    fn size(&self) -> usize {
        self.specs.iter().map(n_params).sum::<usize>() + self.batch * 4 + self.specs.len() * 4
    }
    fn sample(&self) -> Value {
        json!({"stack": format!("{:?}", self.specs), "batch": self.batch, "cost": format!("{:?}", self.cost), "tracked_input": self.track_input, "tracked_target": self.track_target, "target_kind": self.target_kind})
    }
    fn run(&self) -> Outcome {
        let mut k = KeyHasher::new("model-route");
        k.s(&format!("{:?}{:?}", self.specs, self.cost)).u(self.batch as u64).b(self.track_input).b(self.track_target).u(self.target_kind as u64).u(self.freeze_parity as u64).u((self.lr * 64.0) as i64 as u64).u(self.drop_first_gradient_of.map_or(99, |x| x as u64)).b(self.warm_up);
        let classes = vec![format!("input:{}", if self.track_input { "tracked" } else { "plain" }), format!("target:{}", ["fresh", "the-input", "teacher-output"][self.target_kind as usize % 3]), format!("layers:{}", self.specs.len())];
        let a = guarded(|| self.route(false));
        let b = guarded(|| self.route(true));
        let nontrivial = self.track_input || self.track_target || self.target_kind != 0 || self.drop_first_gradient_of.is_some();
        match (a, b) {
            (Ok(Ok(h)), Ok(Ok(m))) => {
                if h == m {
                    return Outcome::pass(nontrivial, k.finish(), classes);
                }
                let show = |g: &G| g.as_ref().map(|(d, v)| (d.clone(), v.iter().take(6).map(|b| f64::from_bits(*b)).collect::<Vec<_>>()));
                let what = if h.out != m.out {
                    ("model-output", format!("Model::forward gives {:?}, the layers applied by hand {:?}", show(&Some(m.out.clone())), show(&Some(h.out.clone()))))
                } else if h.loss != m.loss {
                    ("model-loss", format!("Model::backward returns {:?}, sum(cost(output, target)) by hand is {:?}", f64::from_bits(m.loss), f64::from_bits(h.loss)))
                } else if h.out_grad != m.out_grad {
                    ("model-output-gradient", format!("gradient stored on the array the forward pass returned: through Model {:?}, by hand {:?}", show(&m.out_grad), show(&h.out_grad)))
                } else if h.input_grad != m.input_grad {
                    ("model-input-gradient", format!("gradient of the input: through Model {:?}, by hand {:?}", show(&m.input_grad), show(&h.input_grad)))
                } else if h.target_grad != m.target_grad {
                    ("model-target-gradient", format!("gradient of the target: through Model {:?}, by hand {:?}", show(&m.target_grad), show(&h.target_grad)))
                } else if h.teacher_grads != m.teacher_grads {
                    ("model-target-gradient", format!("gradients of the arrays the target was computed from: through Model {:?}, by hand {:?}", m.teacher_grads.iter().map(show).collect::<Vec<_>>(), h.teacher_grads.iter().map(show).collect::<Vec<_>>()))
                } else if h.param_grads != m.param_grads {
                    let i = h.param_grads.iter().zip(&m.param_grads).position(|(x, y)| x != y).unwrap_or(0);
                    ("model-parameter-gradient", format!("gradient of parameter {}: through Model {:?}, by hand {:?}", i, show(&m.param_grads[i]), show(&h.param_grads[i])))
                } else {
                    let i = h.params_after.iter().zip(&m.params_after).position(|(x, y)| x != y).unwrap_or(0);
                    let f = |p: &(Vec<usize>, Vec<u64>, bool, bool)| (p.0.clone(), p.1.iter().take(6).map(|b| f64::from_bits(*b)).collect::<Vec<_>>(), p.2, p.3);
                    ("model-update", format!("parameter {} after the update (dims, values, tracked, holds a gradient): through Model::update {:?}, optimizer called by hand {:?}", i, f(&m.params_after[i]), f(&h.params_after[i])))
                };
                Outcome::fail(what.0, format!("{}:{}", what.0, self.oracle), format!("{} ({:?})", what.1, self), k.finish(), classes)
            }
            (Ok(Err(e)), _) | (_, Ok(Err(e))) if e.starts_with("FLAGS") => Outcome::fail("parameter-flags", format!("parameter-flags:{}", self.oracle), format!("{} ({:?})", e, self), k.finish(), classes),
            (Ok(Ok(_)), Ok(Err(e))) | (Ok(Ok(_)), Err(e)) => Outcome::fail("model-route-panics", format!("model-route-panics:{}", self.oracle), format!("the computation runs by hand but fails through Model: {} ({:?})", e, self), k.finish(), classes),
            (Ok(Err(e)), _) | (Err(e), _) => Outcome::discard(&format!("the by-hand route does not run: {}", e)),
        }
    }
}

/// the enumerated campaign: stacks x batch x tracking assignments x target kinds x freezing x update variants
pub fn route_cases(oracle: &str, seed: u64, thorough: bool) -> Vec<ModelRouteCase> {
    let stacks: Vec<(Vec<LayerSpec>, usize, usize)> = vec![
        (vec![LayerSpec::Dense { input: 3, output: 3, act: Act::None }], 1, 1),
        (vec![LayerSpec::Dense { input: 2, output: 3, act: Act::Sigmoid }, LayerSpec::Dense { input: 3, output: 2, act: Act::None }], 1, 1),
        (vec![LayerSpec::Dense { input: 3, output: 2, act: Act::Relu }, LayerSpec::Dense { input: 2, output: 3, act: Act::Softmax }], 1, 1),
        (vec![LayerSpec::Conv { count: 2, depth: 1, fr: 2, fc: 2, sr: 1, sc: 1, act: Act::Sigmoid }, LayerSpec::Conv { count: 1, depth: 2, fr: 2, fc: 1, sr: 1, sc: 1, act: Act::None }], 4, 3),
        (vec![LayerSpec::Conv { count: 2, depth: 1, fr: 2, fc: 2, sr: 1, sc: 1, act: Act::None }, LayerSpec::Flatten, LayerSpec::Dense { input: 8, output: 2, act: Act::Sigmoid }], 3, 3),
    ];
    let mut v = vec![];
    let batches: &[usize] = if thorough { &[0, 1, 2, 3] } else { &[0, 2] };
    for (si, (specs, rows, cols)) in stacks.iter().enumerate() {
        for &batch in batches {
            for tk in 0..3u8 {
                for tr in 0..4u8 {
                    for fz in [2u8, 0, 1, 3] {
                        let softmax_last = matches!(specs.last(), Some(LayerSpec::Dense { act: Act::Softmax, .. }));
                        let i = v.len() as u64;
                        v.push(ModelRouteCase {
                            specs: specs.clone(),
                            rows: *rows,
                            cols: *cols,
                            batch,
                            pseed: seed.wrapping_add(i * 31 + 7),
                            xseed: seed.wrapping_add(i * 17 + 3),
                            cost: if softmax_last && tk == 0 { CostKind::CrossEntropy } else { CostKind::Mse },
                            track_input: tr & 1 == 1,
                            track_target: tr & 2 == 2,
                            target_kind: tk,
                            freeze_parity: fz,
                            lr: [0.5, 0.0, -0.25, 1.0][(i % 4) as usize],
                            drop_first_gradient_of: if (i / 4) % 3 == 0 { Some((si + i as usize) % specs.len()) } else { None },
                            oracle: oracle.to_string(),
                            warm_up: (i / 2) % 2 == 1,
                        });
                    }
                }
            }
        }
    }
    v
}
