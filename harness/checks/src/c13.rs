//! C13 A gradient-descent update is exactly one step per parameter and clears gradients.

use crate::exec::*;
use crate::runner::*;
use corgi::array::Array;
use corgi::numbers::Float;
use corgi::optimizer::gd::GradientDescent;
use corgi::optimizer::Optimizer;
use proptest::prelude::*;
use refmodel::tensor::numel;
use serde::{Deserialize, Serialize};
use serde_json::{json, Value};

#[derive(Clone, Debug, Serialize, Deserialize)]
pub struct Param {
    pub dims: Vec<usize>,
    pub vals: Vec<f64>,
    pub tracked: bool,
}

/// One optimizer instance, several rounds; rounds[r][p] = gradient deposited on parameter p before round r
#[derive(Clone, Debug, Serialize, Deserialize)]
pub struct Case13 {
    pub lr: f64,
    pub params: Vec<Param>,
    pub rounds: Vec<Vec<Option<Vec<f64>>>>,
    /// update through `Model::update` (a user-defined layer holds the parameters, one long-lived model) instead
    /// of calling the optimizer directly; the gradients are deposited through gradient_mut either way
    #[serde(default)]
    pub via_model: bool,
    /// the caller keeps NO other handle on the parameters while the optimizer runs (an optimizer that updates in
    /// place whenever a buffer is unshared takes that path only then); the checks that need an older clone are skipped
    #[serde(default)]
    pub no_old_clones: bool,
}

/// a layer whose only job is to own parameters
struct ParamLayer {
    params: Vec<Array>,
}
impl corgi::layer::Layer for ParamLayer {
    fn forward(&self, input: Array) -> Array {
        input
    }
    fn parameters(&mut self) -> Vec<&mut Array> {
        self.params.iter_mut().collect()
    }
}

fn bits(v: &[Float]) -> Vec<u64> {
    v.iter().map(|x| (*x as f64).to_bits()).collect()
}

impl Case13 {
    fn check(&self) -> Result<(), (String, String)> {
        let e = |k: &str, d: String| Err((k.to_string(), d));
        let gd = GradientDescent::new(fl(self.lr));
        let lr = fl(self.lr);
        if self.via_model {
            return self.check_via_model();
        }
        let mut ps: Vec<Array> = self
            .params
            .iter()
            .map(|p| {
                let a = arr(&p.dims, &p.vals);
                if p.tracked {
                    a.tracked()
                } else {
                    a
                }
            })
            .collect();
        for (r, round) in self.rounds.iter().enumerate() {
            // older clones of every parameter, taken before the gradients are deposited
            let olds: Vec<Array> = if self.no_old_clones { vec![] } else { ps.iter().map(|p| p.clone()).collect() };
            let before: Vec<(Vec<usize>, Vec<Float>, bool)> = ps.iter().map(|p| (p.dimensions().to_vec(), p.values().to_vec(), probe_tracked(p))).collect();
            for (p, g) in ps.iter().zip(round) {
                if let Some(g) = g {
                    *p.gradient_mut() = Some(arr(p.dimensions(), g));
                }
            }
            if let Err(p) = guarded(|| gd.update(ps.iter_mut().collect())) {
                return e("unexpected-panic", format!("round {}: update panicked: {}", r, p));
            }
            for (i, g) in round.iter().enumerate() {
                let p = &ps[i];
                let (bd, bv, bt) = &before[i];
                let what = format!("round {} parameter {} (dims {:?}, {} of {} parameters, gradient pattern {:?})", r, i, bd, i + 1, ps.len(), round.iter().map(|x| x.is_some() as u8).collect::<Vec<_>>());
                // older handles never change
                if !self.no_old_clones && (olds[i].dimensions() != &bd[..] || bits(olds[i].values()) != bits(bv)) {
                    return e("old-handle-changed", format!("{}: an older clone changed to dims {:?} values {:?}", what, olds[i].dimensions(), olds[i].values()));
                }
                match g {
                    Some(g) => {
                        if p.dimensions() != &bd[..] {
                            return e("dimensions", format!("{}: dimensions became {:?}", what, p.dimensions()));
                        }
                        let want: Vec<Float> = bv
                            .iter()
                            .zip(g)
                            .map(|(x, g)| {
                                let mut x = *x;
                                x -= lr * fl(*g);
                                x
                            })
                            .collect();
                        if bits(p.values()) != bits(&want) {
                            return e("step-value", format!("{}: values {:?}, expected old - lr*g = {:?} (old {:?}, lr {}, g {:?})", what, p.values(), want, bv, self.lr, g));
                        }
                        if p.gradient().is_some() {
                            return e("gradient-not-cleared", format!("{}: still holds a gradient after the update", what));
                        }
                        if !probe_tracked(p) {
                            return e("not-tracked", format!("{}: the updated parameter is not tracked", what));
                        }
                    }
                    None => {
                        if p.dimensions() != &bd[..] || bits(p.values()) != bits(bv) {
                            return e("frozen-changed", format!("{}: a parameter without a gradient changed to dims {:?} values {:?} (was {:?})", what, p.dimensions(), p.values(), bv));
                        }
                        if probe_tracked(p) != *bt {
                            return e("frozen-flag", format!("{}: tracking flag of a parameter without a gradient changed", what));
                        }
                        if p.gradient().is_some() {
                            return e("frozen-gradient", format!("{}: a parameter without a gradient holds one after the update", what));
                        }
                        if self.no_old_clones {
                            continue;
                        }
                        // still the same node: a gradient deposited through the older clone is visible through it
                        *olds[i].gradient_mut() = Some(arr(bd, &vec![1.0; bv.len()]));
                        let seen = p.gradient().is_some();
                        olds[i].replace_gradient();
                        if !seen {
                            return e("frozen-replaced", format!("{}: a parameter without a gradient was replaced by another array", what));
                        }
                    }
                }
            }
        }
        Ok(())
    }
}

impl Case13 {
    /// the same oracle, with the parameters owned by a layer of one long-lived Model and updated by Model::update
    fn check_via_model(&self) -> Result<(), (String, String)> {
        let e = |k: &str, d: String| Err((k.to_string(), d));
        let gd = GradientDescent::new(fl(self.lr));
        let lr = fl(self.lr);
        let cost = corgi::cost::mse();
        // the parameters are spread over two layers with a user-defined layer WITHOUT parameters between them
        let all: Vec<Array> = self.params.iter().map(|p| { let a = arr(&p.dims, &p.vals); if p.tracked { a.tracked() } else { a } }).collect();
        let split = all.len() / 2;
        let mut layer_b = ParamLayer { params: all[split..].to_vec() };
        let mut layer = ParamLayer { params: all[..split].to_vec() };
        drop(all);
        let mut empty = ParamLayer { params: vec![] };
        let mut expected: Vec<(Vec<usize>, Vec<Float>, bool)> = layer.params.iter().chain(layer_b.params.iter()).map(|p| (p.dimensions().to_vec(), p.values().to_vec(), probe_tracked(p))).collect();
        let rounds = self.rounds.clone();
        let mut observed: Vec<Vec<(Vec<usize>, Vec<Float>, bool, bool)>> = vec![];
        // a Model borrows its layers exclusively, so the gradients are deposited between the lifetimes of short-lived
        // models: one Model::update per round
        for (r, round) in rounds.iter().enumerate() {
            for (p, g) in layer.params.iter().chain(layer_b.params.iter()).zip(round) {
                if let Some(g) = g {
                    *p.gradient_mut() = Some(arr(p.dimensions(), g));
                }
            }
            let olds: Vec<Array> = if self.no_old_clones { vec![] } else { layer.params.iter().chain(layer_b.params.iter()).cloned().collect() };
            {
                let mut model = corgi::model::Model::new(vec![&mut layer as &mut dyn corgi::layer::Layer, &mut empty as &mut dyn corgi::layer::Layer, &mut layer_b as &mut dyn corgi::layer::Layer], &gd, &cost);
                if let Err(p) = guarded(|| model.update()) {
                    return e("unexpected-panic", format!("round {}: Model::update panicked: {}", r, p));
                }
            }
            observed.push(layer.params.iter().chain(layer_b.params.iter()).map(|p| (p.dimensions().to_vec(), p.values().to_vec(), probe_tracked(p), p.gradient().is_some())).collect());
            for (i, g) in round.iter().enumerate() {
                let (bd, bv, bt) = &expected[i];
                let (d, v, t, has_g) = &observed[r][i];
                let what = format!("round {} parameter {} of {} updated through Model::update (dims {:?}, gradient pattern {:?})", r, i, round.len(), bd, round.iter().map(|x| x.is_some() as u8).collect::<Vec<_>>());
                if !self.no_old_clones && (olds[i].dimensions() != &bd[..] || bits(olds[i].values()) != bits(bv)) {
                    return e("old-handle-changed", format!("{}: an older clone changed", what));
                }
                match g {
                    Some(g) => {
                        let want: Vec<Float> = bv.iter().zip(g).map(|(x, g)| { let mut x = *x; x -= lr * fl(*g); x }).collect();
                        if d != bd {
                            return e("dimensions", format!("{}: dimensions became {:?}", what, d));
                        }
                        if bits(v) != bits(&want) {
                            return e("step-value", format!("{}: values {:?}, expected old - lr*g = {:?}", what, v, want));
                        }
                        if *has_g {
                            return e("gradient-not-cleared", format!("{}: still holds a gradient after the update", what));
                        }
                        if !*t {
                            return e("not-tracked", format!("{}: the updated parameter is not tracked", what));
                        }
                    }
                    None => {
                        if d != bd || bits(v) != bits(bv) || t != bt || *has_g {
                            return e("frozen-changed", format!("{}: a parameter without a gradient changed (values {:?}, tracked {}, gradient {})", what, v, t, has_g));
                        }
                    }
                }
            }
            expected = observed[r].iter().map(|(d, v, t, _)| (d.clone(), v.clone(), *t)).collect();
        }
        Ok(())
    }
}

impl CaseKind for Case13 {
    const KIND: &'static str = "c13";
    fn size(&self) -> usize {
        self.params.iter().map(|p| p.vals.len() + 2).sum::<usize>() * (self.rounds.len() + 1)
    }
    fn sample(&self) -> Value {
        json!({"lr": self.lr, "param_dims": self.params.iter().map(|p| p.dims.clone()).collect::<Vec<_>>(), "gradient_pattern_per_round": self.rounds.iter().map(|r| r.iter().map(|g| g.is_some() as u8).collect::<Vec<_>>()).collect::<Vec<_>>()})
    }
    fn run(&self) -> Outcome {
        let mut k = KeyHasher::new("c13");
        for p in &self.params {
            k.us(&p.dims).b(p.tracked);
        }
        for r in &self.rounds {
            for g in r {
                k.b(g.is_some());
            }
            k.u(99);
        }
        k.u((self.lr * 64.0) as i64 as u64).b(self.via_model).b(self.no_old_clones);
        let lens: Vec<usize> = self.params.iter().map(|p| p.vals.len()).collect();
        let mut nontrivial = false;
        for r in &self.rounds {
            let first_frozen = r.iter().position(|g| g.is_none());
            let last_upd = r.iter().rposition(|g| g.is_some());
            if let (Some(f), Some(u)) = (first_frozen, last_upd) {
                if f < u && lens.iter().any(|l| *l != lens[0]) {
                    nontrivial = true;
                }
            }
        }
        let classes = vec![format!("route:{}", if self.via_model { "Model::update" } else { "GradientDescent::update" }), format!("params:{}", self.params.len().min(8)), format!("rounds:{}", self.rounds.len()), format!("frozen-before-updated:{}", nontrivial), format!("lr:{}", if self.lr == 0.0 { "zero" } else if self.lr < 0.0 { "negative" } else { "positive" })];
        match self.check() {
            Ok(()) => Outcome::pass(nontrivial, k.finish(), classes),
            Err((kind, d)) => Outcome::fail(&kind, kind.clone(), d, k.finish(), classes),
        }
    }
}

fn param_vals(i: usize, n: usize) -> Vec<f64> {
    match i % 7 {
        // parameters that are zero or tiny: a small step is representable there
        5 => vec![0.0; n],
        6 => (0..n).map(|j| (j as f64 + 1.0) * 2f64.powi(-72)).collect(),
        _ => (0..n).map(|j| (1000 * (i + 1) + j) as f64).collect(),
    }
}
/// gradients distinct per (round, parameter, element); kind 1: entries cancel to zero; kind 2: all zero
fn grad_vals(r: usize, i: usize, n: usize, kind: u8) -> Vec<f64> {
    match kind % 8 {
        1 => (0..n).map(|j| if n % 2 == 1 && j == n - 1 { 0.0 } else if j % 2 == 0 { (j + 2) as f64 } else { -((j + 1) as f64) }).collect(),
        2 => vec![0.0; n],
        // magnitudes far below / above one (exact powers of two times small integers)
        3 => (0..n).map(|j| (j as f64 + 1.0) * 2f64.powi(-70) * if j % 2 == 0 { 1.0 } else { -1.0 }).collect(),
        4 => (0..n).map(|j| (j as f64 + 1.0) * 2f64.powi(40)).collect(),
        _ => (0..n).map(|j| (16 * r + 4 * i + j + 1) as f64 * if (i + j) % 3 == 0 { -1.0 } else { 1.0 }).collect(),
    }
}

const SHAPES: [&[usize]; 6] = [&[1], &[3], &[2, 2], &[1, 2], &[2, 1, 3], &[4]];

#[derive(Clone, Debug)]
struct R13 {
    shapes: Vec<Vec<usize>>,
    tracked: Vec<bool>,
    masks: Vec<Vec<u8>>,
    lri: usize,
}

const LRS: [f64; 8] = [0.5, 1.0, 0.25, 0.0, -0.5, 2.0, 1125899906842624.0, 0.0625];

fn build(r: &R13, random_lr: Option<f64>) -> Case13 {
    let params: Vec<Param> = r.shapes.iter().enumerate().map(|(i, s)| Param { dims: s.clone(), vals: param_vals(i, numel(s)), tracked: r.tracked[i % r.tracked.len().max(1)] }).collect();
    let rounds = r
        .masks
        .iter()
        .enumerate()
        .map(|(ri, m)| params.iter().enumerate().map(|(i, p)| { let k = m[i % m.len().max(1)]; if k % 4 == 0 { None } else { Some(grad_vals(ri, i, p.vals.len(), k / 4)) } }).collect())
        .collect();
    Case13 { lr: random_lr.unwrap_or(LRS[r.lri % LRS.len()]), params, rounds, via_model: r.lri % 3 == 2, no_old_clones: r.lri % 4 == 1 }
}

pub fn dispatch(kind: &str, v: &Value) -> Option<Outcome> {
    match kind {
        "c13" => serde_json::from_value::<Case13>(v.clone()).ok().map(|c| c.run()),
        _ => None,
    }
}

pub fn campaigns(ctx: &Ctx) -> Stats {
    let mut st = Stats::default();
    let t = ctx.tier;
    // exhaustive: 3 parameters from 6 shapes, every gradient pattern in two consecutive rounds
    let ns = SHAPES.len() as u64;
    st.merge(ctx.run_indexed(
        "three-parameters-all-patterns",
        ns * ns * ns * 64,
        Some("3 parameters with shapes from {[1],[3],[2,2],[1,2],[2,1,3],[4]} (all 216 combinations) x all 8 gradient/frozen patterns in round 1 x all 8 in round 2, one optimizer instance, lr 0.5"),
        |i| {
            let pat = i % 64;
            let s = i / 64;
            let shapes = vec![SHAPES[(s % ns) as usize].to_vec(), SHAPES[((s / ns) % ns) as usize].to_vec(), SHAPES[(s / ns / ns) as usize].to_vec()];
            let m = |p: u64, r: u64| (0..3).map(|b| if (p >> b) & 1 == 1 { 4 + 4 * (((b + r) % 3 == 2) as u8) * 0 + 1 } else { 0 }).collect::<Vec<u8>>();
            Some(build(&R13 { shapes, tracked: vec![true, false, true], masks: vec![m(pat % 8, 0), m(pat / 8, 1)], lri: 0 }, None))
        },
    ));
    let (total, max_params, max_rounds) = t.pick((160000u64, 7usize, 4usize), (1000000, 9, 6));
    let strat = move || {
        (
            prop::collection::vec(prop::collection::vec(1..=5usize, 1..=3), 0..=max_params),
            prop::collection::vec(any::<bool>(), 1..=4),
            prop::collection::vec(prop::collection::vec(any::<u8>(), 1..=9), 1..=max_rounds),
            0..16usize,
            -2.0f64..2.0,
        )
            .prop_map(|(shapes, tracked, masks, lri, rl)| (R13 { shapes, tracked, masks, lri }, rl))
            .boxed()
    };
    st.merge(ctx.run_prop("random-parameter-lists", total, strat, |(r, rl)| Some(build(r, if r.lri >= 8 { Some(*rl) } else { None }))));
    // long lists: more parameters than fit in one machine word of flags, frozen ones at every position
    let long_total = t.pick(2400u64, 12000);
    let strat_long = move || (60..=140usize, prop::collection::vec(any::<u8>(), 8..40), prop::collection::vec(any::<u8>(), 8..40), 0..8usize).boxed();
    st.merge(ctx.run_prop("long-parameter-lists", long_total, strat_long, |(n, m1, m2, lri)| {
        let shapes: Vec<Vec<usize>> = (0..*n).map(|i| vec![1 + (i % 3)]).collect();
        Some(build(&R13 { shapes, tracked: vec![true], masks: vec![(0..*n).map(|i| m1[i % m1.len()] | 1 << (i % 5)).map(|b| if b % 5 == 0 { 0 } else { b }).collect(), (0..*n).map(|i| m2[(i * 7) % m2.len()]).collect()], lri: *lri }, None))
    }));
    // parameters that are EQUAL (same dimensions, same values - zero or constant initialisation) next to each other, some
    // frozen, some not: identity, not equality, decides what is stepped
    {
        let shapes: [&[usize]; 3] = [&[3], &[2, 2], &[1]];
        st.merge(ctx.run_indexed("equal-valued-parameters", 3 * 3 * 64 * 2, None, |i| {
            let d = shapes[(i % 3) as usize].to_vec();
            let c = [0.0, 1.0, -2.5][((i / 3) % 3) as usize];
            let pat = (i / 9) % 64;
            let via_model = (i / 9 / 64) % 2 == 1;
            let n: usize = d.iter().product();
            let np = 4;
            let params: Vec<Param> = (0..np).map(|_| Param { dims: d.clone(), vals: vec![c; n], tracked: true }).collect();
            // two rounds, every frozen / active pattern of the first three parameters in each
            let round = |bits: u64, r: usize| -> Vec<Option<Vec<f64>>> { (0..np).map(|p| if p < 3 && (bits >> p) & 1 == 0 { None } else { Some(grad_vals(r, p, n, 0)) }).collect() };
            Some(Case13 { lr: 0.5, params, rounds: vec![round(pat % 8, 0), round(pat / 8, 1)], via_model, no_old_clones: i % 2 == 1 })
        }));
    }
    // parameter lists with thousands of values in total (odd and even totals, around powers of two and beyond 2^16):
    // an optimizer that splits or blocks its work by element count
    {
        let lists: Vec<Vec<Vec<usize>>> = vec![
            vec![vec![65, 63], vec![4], vec![2, 3]],
            vec![vec![4097]],
            vec![vec![4096]],
            vec![vec![5001]],
            vec![vec![66, 63], vec![63]],
            vec![vec![70001]],
            vec![vec![300, 300]],
            vec![vec![1], vec![4096]],
            vec![vec![2048], vec![2049]],
            vec![vec![3], vec![8191], vec![5]],
            vec![vec![16385], vec![7], vec![16384]],
            vec![vec![64], vec![8, 8], vec![63], vec![65]],
            vec![vec![1023], vec![1025], vec![2, 1024]],
        ];
        let nl = lists.len() as u64;
        st.merge(ctx.run_indexed("thousands-of-values", nl * 2 * 2 * 2, None, |i| {
            let shapes = lists[(i % nl) as usize].clone();
            let v = i / nl;
            let np = shapes.len();
            // round 1: everything but the second parameter steps; round 2: everything
            let masks: Vec<Vec<u8>> = vec![(0..np).map(|p| if p == 1 { 0 } else { 5 }).collect(), vec![21; np]];
            let mut c = build(&R13 { shapes, tracked: vec![true], masks, lri: if v & 1 == 0 { 0 } else { 2 } }, None);
            c.no_old_clones = v & 2 == 2;
            c.via_model = v & 4 == 4;
            Some(c)
        }));
    }
    st
}

pub fn run(ctx: &Ctx) -> i32 {
    let mut st = ctx.run_replays(&dispatch);
    st.merge(campaigns(ctx));
    finish(
        ctx,
        st,
        "cases = a parameter list (0-7 arrays quick / 0-9 thorough, rank 1-3, sizes 1-5, tracked or not) and 1-4 (quick) / 1-6 (thorough) rounds; before each round a generated subset of the parameters receives a gradient (distinct entries; also gradients whose entries cancel to zero and all-zero gradients), then one long-lived GradientDescent instance updates the whole list. Oracle per round and parameter: with a gradient -> same dimensions, values bitwise equal to old - lr*g computed with the same two operations in the build's float type, tracked, gradient cleared, older clones bitwise unchanged; without -> values, dimensions and flag unchanged, no gradient, and still the same node (a gradient deposited through an older clone is visible through it). Non-trivial = parameters of different lengths with a frozen one before an updated one in some round; distinct by (shapes, flags, gradient pattern per round, learning rate).",
        &["parameter values 1000*(i+1)+j and gradients distinct per (round, parameter, element), so positional misalignment between parameters is visible", "the same array is never listed twice in one parameter list (outside the property's domain)"],
        json!({}),
    )
}
