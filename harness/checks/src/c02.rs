//! C02 Each operation's derivative equals its mathematical definition.

use crate::gens::*;
use crate::opcase::*;
use crate::runner::*;
use crate::vals::*;
use proptest::prelude::*;
use refmodel::ir::OpKind;
use refmodel::tensor::*;
use serde_json::{json, Value};

pub const POWF_EXPONENTS: [f64; 11] = [-2.0, -1.5, -1.0, -0.5, 0.0, 0.5, 1.0, 1.5, 2.0, 3.0, 4.0];

/// value kind that keeps an operation inside its well-conditioned domain
pub fn vkind_for(op: &OpKind) -> VKind {
    use OpKind::*;
    match op {
        Ln | Recip => VKind::Pos,
        Powf(e) => {
            if *e == e.trunc() && *e >= 1.0 {
                VKind::Int
            } else {
                VKind::Pos
            }
        }
        Exp | Sigmoid | Softmax => VKind::Small,
        Div => VKind::Signed,
        _ => VKind::Int,
    }
}

#[derive(Clone, Debug)]
enum USpec {
    Plain(OpKind),
    SumAllK,
    ReshapeAll,
}

fn unary_cases(shapes: &[Vec<usize>]) -> Vec<GradCase> {
    use OpKind::*;
    let mut specs = vec![USpec::Plain(Neg), USpec::Plain(ScaleR(3.0)), USpec::Plain(ScaleL(-0.5)), USpec::Plain(Ln), USpec::Plain(Exp), USpec::Plain(Recip), USpec::Plain(Relu), USpec::Plain(Sigmoid), USpec::Plain(Softmax), USpec::SumAllK, USpec::ReshapeAll];
    for e in POWF_EXPONENTS {
        specs.push(USpec::Plain(Powf(e)));
    }
    let mut out = vec![];
    for (si, shape) in shapes.iter().enumerate() {
        let n = numel(shape);
        for spec in &specs {
            let ops: Vec<OpKind> = match spec {
                USpec::Plain(o) => vec![o.clone()],
                USpec::SumAllK => (0..=shape.len()).map(Sum).collect(),
                USpec::ReshapeAll => shapes_with_numel(n).into_iter().map(Reshape).collect(),
            };
            for op in ops {
                let vals = gen_vals(si as u64 * 31 + 5, n, vkind_for(&op));
                let out_n = match &op {
                    Sum(k) if *k > 0 => numel(&shape[..shape.len() - k]),
                    _ => n,
                };
                for seed in [Some(distinct_seed(out_n)), None] {
                    out.push(GradCase { op: op.clone(), leaves: vec![LeafSpec { dims: shape.clone(), vals: vals.clone(), tracked: true }], seed, uses: 1, passes: 1, same_operand: false, detached_clone: 0, view_of_first: None, swap_operands: false });
                }
            }
        }
    }
    out
}

const EW_TRACK: [[bool; 2]; 3] = [[true, false], [false, true], [true, true]];

fn ew_op(i: usize) -> OpKind {
    match i {
        0 => OpKind::Add,
        1 => OpKind::Sub,
        2 => OpKind::Mul,
        3 => OpKind::Div,
        _ => OpKind::Axpy(-3.0),
    }
}

fn ew_case(pair: &(Vec<usize>, Vec<usize>), opi: usize, tri: usize, with_seed: bool) -> GradCase {
    let op = ew_op(opi);
    let (a, b) = pair;
    let out = broadcast_dims(a, b).unwrap();
    let (va, vb) = if opi == 3 { (gen_vals(11, numel(a), VKind::Signed), gen_vals(12, numel(b), VKind::Signed)) } else { (iota(numel(a), 1.0, 1.0), iota(numel(b), -40.0, 3.0)) };
    GradCase {
        op,
        leaves: vec![LeafSpec { dims: a.clone(), vals: va, tracked: EW_TRACK[tri][0] }, LeafSpec { dims: b.clone(), vals: vb, tracked: EW_TRACK[tri][1] }],
        seed: if with_seed { Some(distinct_seed(numel(&out))) } else { None },
        uses: 1,
        passes: 1,
        same_operand: false,
        detached_clone: 0,
        view_of_first: None,
        swap_operands: false,
    }
}

const MM_TRACK: [[bool; 3]; 7] = [[true, false, false], [false, true, false], [true, true, false], [false, false, true], [true, false, true], [false, true, true], [true, true, true]];

fn mm_case(cfg: &MatmulCfg, tri: usize) -> Option<GradCase> {
    let tr = MM_TRACK[tri];
    if tr[2] && cfg.c.is_none() {
        return None;
    }
    let leaves = cfg.leaves(tr);
    let t = refmodel::ops::matmul(&T::from_f64(&cfg.a, &leaves[0].vals), cfg.ta, &T::from_f64(&cfg.b, &leaves[1].vals), cfg.tb, None).ok()?;
    Some(GradCase { op: cfg.op(), leaves, seed: Some(distinct_seed(t.numel())), uses: 1, passes: 1, same_operand: false, detached_clone: 0, view_of_first: None, swap_operands: false })
}

fn conv_case(cfg: &ConvCfg, tri: usize) -> GradCase {
    let tr = [[true, false], [false, true], [true, true]][tri];
    let leaves = cfg.leaves(tr);
    let n = cfg.image.len();
    let out_n = numel(&cfg.image[..n - 3]) * cfg.filter_count() * cfg.out_windows();
    GradCase { op: cfg.op(), leaves, seed: Some(distinct_seed(out_n)), uses: 1, passes: 1, same_operand: false, detached_clone: 0, view_of_first: None, swap_operands: false }
}

#[derive(Clone, Debug)]
struct RandRecipe {
    opi: usize,
    dims: Vec<usize>,
    p: [u8; 4],
    e: f64,
    vseed: u64,
    tr: u8,
}

/// random single-operation cases with random in-domain values (tolerance mode)
fn random_case(r: &RandRecipe) -> Option<GradCase> {
    use OpKind::*;
    let d = &r.dims;
    let n = numel(d);
    let mk = |dims: &[usize], kind: VKind, salt: u64, tracked: bool| LeafSpec { dims: dims.to_vec(), vals: gen_vals(r.vseed ^ salt, numel(dims), kind), tracked };
    let tr2 = EW_TRACK[(r.tr % 3) as usize];
    let (op, leaves): (OpKind, Vec<LeafSpec>) = match r.opi {
        0..=4 => {
            // element-wise with a broadcast partner derived from dims
            let op = match r.opi {
                0 => Add,
                1 => Sub,
                2 => Mul,
                3 => Div,
                _ => Axpy((r.p[3] as f64 - 128.0) / 16.0),
            };
            let drop = (r.p[0] as usize) % d.len();
            let mut b: Vec<usize> = d[drop..].to_vec();
            for (i, x) in b.iter_mut().enumerate() {
                if (r.p[1] >> i) & 1 == 1 {
                    *x = 1;
                }
            }
            let (x, y) = if r.p[2] & 1 == 0 { (d.clone(), b) } else { (b, d.clone()) };
            (op, vec![mk(&x, VKind::Signed, 1, tr2[0]), mk(&y, VKind::Signed, 2, tr2[1])])
        }
        5 => (Neg, vec![mk(d, VKind::Signed, 1, true)]),
        6 => (ScaleR((r.p[0] as f64 - 128.0) / 32.0), vec![mk(d, VKind::Signed, 1, true)]),
        7 => (ScaleL((r.p[0] as f64 - 128.0) / 32.0), vec![mk(d, VKind::Signed, 1, true)]),
        8 => (Powf(r.e), vec![mk(d, VKind::Pos, 1, true)]),
        9 => (Ln, vec![mk(d, VKind::Pos, 1, true)]),
        10 => (Exp, vec![mk(d, VKind::Small, 1, true)]),
        11 => (Recip, vec![mk(d, VKind::Signed, 1, true)]),
        12 => (Sum(r.p[0] as usize % (d.len() + 1)), vec![mk(d, VKind::Signed, 1, true)]),
        13 => {
            let targets = shapes_with_numel(n);
            (Reshape(targets[r.p[0] as usize * targets.len() / 256].clone()), vec![mk(d, VKind::Signed, 1, true)])
        }
        14 => (Relu, vec![mk(d, VKind::Small, 1, true)]),
        15 => (Sigmoid, vec![mk(d, VKind::Small, 1, true)]),
        _ => (Softmax, vec![mk(d, VKind::Small, 1, true)]),
    };
    let ts: Vec<T> = leaves.iter().map(|l| T::from_f64(&l.dims, &l.vals)).collect();
    let mut st = refmodel::model::RefState::forward_only();
    let hs: Vec<usize> = leaves.iter().map(|l| st.new_leaf(&l.dims, &l.vals, false)).collect();
    let out = st.eval(&op, &hs).ok()?;
    if !in_domain(&op, &ts.iter().collect::<Vec<_>>()) {
        return None;
    }
    let seed = if r.p[3] % 5 == 0 { None } else { Some(gen_vals(r.vseed ^ 99, out.numel(), VKind::Small)) };
    Some(GradCase { op, leaves, seed, uses: 1, passes: 1, same_operand: false, detached_clone: 0, view_of_first: None, swap_operands: false })
}

pub fn dispatch(kind: &str, v: &Value) -> Option<Outcome> {
    match kind {
        "grad-op" => serde_json::from_value::<GradCase>(v.clone()).ok().map(|c| c.run()),
        _ => None,
    }
}

pub fn mm_sizes(t: Tier) -> Vec<(usize, usize, usize)> {
    let mut v = vec![];
    let mx = t.pick(2, 3);
    for r in 1..=mx {
        for k in 1..=mx {
            for c in 1..=mx {
                v.push((r, k, c));
            }
        }
    }
    if t == Tier::Quick {
        v.extend([(2, 3, 4), (3, 1, 2), (1, 3, 2)]);
    } else {
        v.extend([(2, 3, 4), (4, 2, 3), (3, 4, 1)]);
    }
    v
}

pub fn campaigns(ctx: &Ctx) -> Stats {
    let mut st = Stats::default();
    let t = ctx.tier;
    // unary operations, all shapes
    let ushapes = all_shapes(t.pick(3, 4), 3);
    let ucases = unary_cases(&ushapes);
    st.merge(ctx.run_indexed("unary-all-shapes", ucases.len() as u64, Some("every unary operation and parameterisation (11 powf exponents, sum(k) for every k, reshape to every factorisation) on all shapes of rank<=3 (quick) / <=4 (thorough), sizes 1..3"), |i| Some(ucases[i as usize].clone())));
    // element-wise binary operations over all admissible pairs
    let pairs = admissible_pairs(&t.pick(quick_shapes(), all_shapes(4, 3)));
    let np = pairs.len() as u64;
    st.merge(ctx.run_indexed("elementwise-all-pairs", np * 5 * 3 * 2, Some("add, sub, mul, div, axpy on all broadcast-compatible ordered shape pairs (rank<=3 sizes<=3 plus rank 4 sizes<=2 quick; rank<=4 sizes<=3 thorough), each tracked subset, with a non-uniform seed and with the omitted (uniform) seed"), |i| {
        let with_seed = i % 2 == 0;
        let i = i / 2;
        let tri = (i % 3) as usize;
        let opi = ((i / 3) % 5) as usize;
        Some(ew_case(&pairs[(i / 15) as usize], opi, tri, with_seed))
    }));
    // the same operation built twice on the same operands and summed: every operand has two consumers in one pass,
    // so its second contribution meets a pending one (broadcast operands: the contributions are reduced one by one)
    st.merge(ctx.run_indexed("elementwise-all-pairs-two-uses", np * 5 * 3, None, |i| {
        let tri = (i % 3) as usize;
        let opi = ((i / 3) % 5) as usize;
        let mut c = ew_case(&pairs[(i / 15) as usize], opi, tri, true);
        c.uses = 2;
        Some(c)
    }));
    // value patterns (zeros, ones, equal, zero-sum, one-hot, exact zeros in between, powers of two) and sizes around
    // typical block lengths, for every operation with a derivative
    {
        use OpKind::*;
        let unary = [Neg, ScaleR(1.0), ScaleR(0.0), ScaleL(-3.0), Powf(2.0), Powf(3.0), Powf(1.0), Exp, Sigmoid, Softmax, Relu, Sum(1), Sum(2), Reshape(vec![0])];
        let shapes: Vec<Vec<usize>> = vec![vec![4], vec![2, 3], vec![3, 1, 2], vec![2, 2, 2, 2]];
        let nu = unary.len() as u64;
        st.merge(ctx.run_indexed("value-patterns", nu * 4 * N_PATTERNS as u64 + 5 * 3 * (N_PATTERNS * N_PATTERNS) as u64, None, |i| {
            if i < nu * 4 * N_PATTERNS as u64 {
                let pat = (i % N_PATTERNS as u64) as usize;
                let d = &shapes[((i / N_PATTERNS as u64) % 4) as usize];
                let mut op = unary[(i / N_PATTERNS as u64 / 4) as usize].clone();
                if let Reshape(_) = op {
                    op = Reshape(vec![numel(d)]);
                }
                if let Sum(k) = op {
                    if k > d.len() {
                        return None;
                    }
                }
                let vals = pattern_vals(pat, numel(d), i);
                let out_n = match &op {
                    Sum(k) => numel(&d[..d.len() - k]),
                    _ => numel(d),
                };
                Some(GradCase { op, leaves: vec![LeafSpec { dims: d.clone(), vals, tracked: true }], seed: Some(distinct_seed(out_n)), uses: 1, passes: 1, same_operand: false, detached_clone: 0, view_of_first: None, swap_operands: false })
            } else {
                let j = i - nu * 4 * N_PATTERNS as u64;
                let (pa, pb) = ((j % N_PATTERNS as u64) as usize, ((j / N_PATTERNS as u64) % N_PATTERNS as u64) as usize);
                let k = j / (N_PATTERNS * N_PATTERNS) as u64;
                let opi = (k % 5) as usize;
                let tri = (k / 5) as usize;
                let (a, b): (Vec<usize>, Vec<usize>) = (vec![2, 1, 3], vec![2, 3]);
                let mut c = ew_case(&(a, b), opi, tri, true);
                c.leaves[0].vals = pattern_vals(pa, 6, j);
                c.leaves[1].vals = pattern_vals(pb, 6, j + 1);
                if opi == 3 && c.leaves[1].vals.iter().any(|v| *v == 0.0) {
                    return None;
                }
                Some(c)
            }
        }));
        let nb = BOUNDARY_SIZES.len() as u64;
        let bops = [Exp, Sigmoid, Softmax, Relu, Powf(3.0), Sum(1), Sum(2), Neg];
        st.merge(ctx.run_indexed("boundary-sizes", nb * bops.len() as u64 * 2 + nb * 4 * 2, None, |i| {
            if i < nb * bops.len() as u64 * 2 {
                let n = BOUNDARY_SIZES[(i % nb) as usize];
                let op = bops[((i / nb) % bops.len() as u64) as usize].clone();
                // the boundary length as the last dimension, or as the total count of a [k, n/k]-like shape
                let d = if (i / nb / bops.len() as u64) == 0 { vec![n] } else { vec![3, n] };
                let vals = gen_vals(i, numel(&d), vkind_for(&op));
                let out_n = match &op {
                    Sum(k) => numel(&d[..d.len().saturating_sub(*k)]).max(1),
                    _ => numel(&d),
                };
                if let Sum(k) = &op {
                    if *k > d.len() {
                        return None;
                    }
                }
                Some(GradCase { op, leaves: vec![LeafSpec { dims: d, vals, tracked: true }], seed: Some(gen_vals(i + 5, out_n, VKind::Int)), uses: 1, passes: 1, same_operand: false, detached_clone: 0, view_of_first: None, swap_operands: false })
            } else {
                let j = i - nb * bops.len() as u64 * 2;
                let n = BOUNDARY_SIZES[(j % nb) as usize];
                let opi = ((j / nb) % 4) as usize;
                let (a, b) = if (j / nb / 4) == 0 { (vec![2, n], vec![n]) } else { (vec![n, 1], vec![n, 3]) };
                let mut c = ew_case(&(a.clone(), b.clone()), opi, 2, true);
                c.seed = Some(gen_vals(j, numel(&broadcast_dims(&a, &b).unwrap()), VKind::Int));
                Some(c)
            }
        }));
        // two passes over the same operation: accumulation into an existing gradient, lengths around block sizes
        st.merge(ctx.run_indexed("boundary-sizes-two-uses", nb * 3, None, |i| {
            let n = BOUNDARY_SIZES[(i % nb) as usize];
            let op = [Mul, Add, Sub][(i / nb) as usize].clone();
            Some(GradCase { op, leaves: vec![LeafSpec { dims: vec![n], vals: gen_vals(i, n, VKind::Int), tracked: true }, LeafSpec { dims: vec![n], vals: gen_vals(i + 9, n, VKind::Int), tracked: true }], seed: Some(gen_vals(i + 3, n, VKind::Int)), uses: 2, passes: 1, same_operand: false, detached_clone: 0, view_of_first: None, swap_operands: false })
        }));
    }
    // matmul
    let cfgs = matmul_cfgs(&mm_sizes(t), true, 2, 3);
    st.merge(ctx.run_indexed("matmul-configurations", cfgs.len() as u64 * 7, None, |i| mm_case(&cfgs[(i / 7) as usize], (i % 7) as usize)));
    // conv
    let ccfgs = conv_cfgs(t.pick(4, 5), 3, t.pick(2, 3), t.pick(&[1, 2][..], &[1, 2, 3][..]), &[1, 2], &[vec![], vec![1], vec![2], vec![2, 2]]);
    st.merge(ctx.run_indexed("conv-configurations", ccfgs.len() as u64 * 3, None, |i| Some(conv_case(&ccfgs[(i / 3) as usize], (i % 3) as usize))));
    // softmax with rows at very different offsets (squares of row sums stay finite in f32)
    st.merge(ctx.run_indexed("wide-range-softmax", 4 * 5 * 5, None, |i| {
        let shapes: [&[usize]; 4] = [&[2, 3], &[3, 2], &[2, 2, 2], &[4, 1, 3]];
        let offs = [-30.0, -12.0, 0.0, 14.0, 28.0];
        let d = shapes[(i % 4) as usize];
        let (o1, o2) = (offs[((i / 4) % 5) as usize], offs[((i / 20) % 5) as usize]);
        let l = *d.last().unwrap();
        let n = numel(d);
        let vals: Vec<f64> = (0..n).map(|j| (if (j / l) % 2 == 0 { o1 } else { o2 }) + ((j * 7) % 5) as f64 * 0.5 - 1.0).collect();
        Some(GradCase { op: OpKind::Softmax, leaves: vec![LeafSpec { dims: d.to_vec(), vals, tracked: true }], seed: Some(distinct_seed(n)), uses: 1, passes: 1, same_operand: false, detached_clone: 0, view_of_first: None, swap_operands: false })
    }));
    // the same array in both operand slots (x op x, matmul(x, x^T), x^T x), 1 and 2 passes
    {
        use OpKind::*;
        let shapes: Vec<Vec<usize>> = vec![vec![3], vec![2, 3], vec![3, 2], vec![2, 2], vec![2, 2, 3], vec![1, 4]];
        let ops: Vec<OpKind> = vec![Add, Sub, Mul, Div, Axpy(2.0), Matmul { ta: false, tb: true, has_c: false }, Matmul { ta: true, tb: false, has_c: false }, Matmul { ta: false, tb: false, has_c: false }];
        let (ns, no) = (shapes.len() as u64, ops.len() as u64);
        st.merge(ctx.run_indexed("same-array-in-both-slots", ns * no * 2, None, |i| {
            let d = &shapes[(i % ns) as usize];
            let op = ops[((i / ns) % no) as usize].clone();
            let passes = 1 + (i / ns / no) as usize;
            let vals = gen_vals(i, numel(d), VKind::PosInt);
            let leaf = LeafSpec { dims: d.clone(), vals, tracked: true };
            let mut st = refmodel::model::RefState::forward_only();
            let h = st.new_leaf(&leaf.dims, &leaf.vals, false);
            let out = st.eval(&op, &[h, h]).ok()?;
            Some(GradCase { op, leaves: vec![leaf.clone(), leaf], seed: Some(distinct_seed(out.numel())), uses: 1, passes, same_operand: true, detached_clone: 0, view_of_first: None, swap_operands: false })
        }));
        // a tracked array next to a detached clone of itself (x op x.clone().untracked()), either operand order
        st.merge(ctx.run_indexed("array-next-to-its-detached-clone", ns * no * 2, None, |i| {
            let d = &shapes[(i % ns) as usize];
            let op = ops[((i / ns) % no) as usize].clone();
            let which = 1 + (i / ns / no) as u8;
            let vals = gen_vals(i, numel(d), VKind::PosInt);
            let leaf = LeafSpec { dims: d.clone(), vals, tracked: true };
            let mut st = refmodel::model::RefState::forward_only();
            let h = st.new_leaf(&leaf.dims, &leaf.vals, false);
            let out = st.eval(&op, &[h, h]).ok()?;
            Some(GradCase { op, leaves: vec![leaf.clone(), leaf], seed: Some(distinct_seed(out.numel())), uses: 1, passes: 1, same_operand: false, detached_clone: which, view_of_first: None, swap_operands: false })
        }));
        // every unary / binary operation differentiated twice / three times from the same result
        let twice: Vec<OpKind> = vec![Exp, Sigmoid, Softmax, Ln, Recip, Powf(3.0), Relu, Sum(1), Neg, ScaleR(2.0)];
        let nt = twice.len() as u64;
        st.merge(ctx.run_indexed("two-and-three-passes", nt * 3 * 2 + 5 * 3 * 2, None, |i| {
            if i < nt * 6 {
                let op = twice[(i % nt) as usize].clone();
                let d: Vec<usize> = [vec![4], vec![2, 3], vec![2, 1, 2]][((i / nt) % 3) as usize].clone();
                let passes = 2 + (i / nt / 3) as usize;
                let vals = gen_vals(i, numel(&d), vkind_for(&op));
                let out_n = if let Sum(_) = op { numel(&d[..d.len() - 1]) } else { numel(&d) };
                Some(GradCase { op, leaves: vec![LeafSpec { dims: d, vals, tracked: true }], seed: Some(gen_vals(i + 3, out_n, VKind::PosInt)), uses: 1, passes, same_operand: false, detached_clone: 0, view_of_first: None, swap_operands: false })
            } else {
                let j = i - nt * 6;
                let mut c = ew_case(&(vec![2, 1, 3], vec![2, 3]), (j % 5) as usize, ((j / 5) % 3) as usize, true);
                c.passes = 2 + (j / 15) as usize;
                Some(c)
            }
        }));
    }
    // operands and seeds of very different magnitudes (per array and per element), full mantissas
    {
        use OpKind::*;
        let (gb, gj, arg_max) = if crate::exec::IS_F32 { (4, 3, 60.0) } else { (40, 20, 600.0) };
        let kinds = 24u64;
        let shapes: Vec<Vec<usize>> = vec![vec![5], vec![2, 3], vec![3, 1, 2], vec![9]];
        let seed_salt = ctx.seed.wrapping_mul(0x9E3779B1);
        st.merge(ctx.run_indexed("wide-magnitudes", kinds * shapes.len() as u64 * t.pick(600, 8000), None, |i| {
            let d = shapes[((i / kinds) % shapes.len() as u64) as usize].clone();
            let n = numel(&d);
            let z = mix(i ^ 0xC02 ^ seed_salt);
            let j = if (z >> 20) & 1 == 0 { 0 } else { gj };
            let vals = |salt: u64, n: usize, signed: bool| wide_vals(z ^ salt, n, pick_base((z >> (8 * (salt % 3))) as u8, gb), j, signed);
            let args = |n: usize| wide_vals(z, n, pick_base(z as u8, 40).min(9), j.min(8), true).into_iter().map(|v: f64| v.clamp(-arg_max, arg_max)).collect::<Vec<f64>>();
            let leaf = |dims: &[usize], vals: Vec<f64>, tracked: bool| LeafSpec { dims: dims.to_vec(), vals, tracked };
            let tr = EW_TRACK[((z >> 33) % 3) as usize];
            let k = 2f64.powi(pick_base((z >> 8) as u8, gb)) * if (z >> 30) & 1 == 0 { 1.0 } else { -1.5 };
            let (op, leaves): (OpKind, Vec<LeafSpec>) = match i % kinds {
                0 => (Add, vec![leaf(&d, vals(1, n, true), tr[0]), leaf(&d[d.len() - 1..], vals(2, d[d.len() - 1], true), tr[1])]),
                1 => (Sub, vec![leaf(&d[d.len() - 1..], vals(1, d[d.len() - 1], true), tr[0]), leaf(&d, vals(2, n, true), tr[1])]),
                2 => (Mul, vec![leaf(&d, vals(1, n, true), tr[0]), leaf(&d, vals(2, n, true), tr[1])]),
                3 => (Div, vec![leaf(&d, vals(1, n, true), tr[0]), leaf(&d[d.len() - 1..], vals(2, d[d.len() - 1], true), tr[1])]),
                4 => (Div, vec![leaf(&[1], vals(1, 1, true), tr[0]), leaf(&d, vals(2, n, true), tr[1])]),
                5 => (Axpy(k), vec![leaf(&d, vals(1, n, true), tr[0]), leaf(&d, vals(2, n, true), tr[1])]),
                6 => (Neg, vec![leaf(&d, vals(1, n, true), true)]),
                7 => (ScaleR(k), vec![leaf(&d, vals(1, n, true), true)]),
                8 => (ScaleL(k), vec![leaf(&d, vals(1, n, true), true)]),
                9 => (Relu, vec![leaf(&d, vals(1, n, true), true)]),
                10 => (Sum(1 + (z >> 40) as usize % d.len()), vec![leaf(&d, vals(1, n, true), true)]),
                11 => (Reshape(vec![n]), vec![leaf(&d, vals(1, n, true), true)]),
                12 => (Ln, vec![leaf(&d, vals(1, n, false), true)]),
                13 => (Recip, vec![leaf(&d, vals(1, n, true), true)]),
                14 => (Exp, vec![leaf(&d, args(n), true)]),
                // the logistic function is defined where e^-x overflows: arguments are not clamped
                15 => (Sigmoid, vec![leaf(&d, wide_vals(z, n, pick_base(z as u8, 40).min(9), j.min(8), true), true)]),
                16 => (Softmax, vec![leaf(&d, args(n), true)]),
                17 => (Powf([2.0, 3.0, 4.0, -1.0, -2.0, 1.0][(z >> 44) as usize % 6]), vec![leaf(&d, vals(1, n, true), true)]),
                18 => (Powf([0.5, 1.5, -0.5, -1.5, 2.5, 0.25][(z >> 44) as usize % 6]), vec![leaf(&d, vals(1, n, false), true)]),
                19 | 20 => {
                    let (ta, tb) = ((z >> 41) & 1 == 1, (z >> 42) & 1 == 1);
                    let (r, kk, c) = [(2, 3, 2), (1, 4, 3), (3, 2, 1), (2, 8, 2)][(z >> 44) as usize % 4];
                    let a: Vec<usize> = if ta { vec![kk, r] } else { vec![r, kk] };
                    let b: Vec<usize> = if tb { vec![c, kk] } else { vec![kk, c] };
                    let mut l = vec![leaf(&a, vals(1, r * kk, true), tr[0]), leaf(&b, vals(2, kk * c, true), tr[1])];
                    let has_c = i % kinds == 20;
                    if has_c {
                        l.push(leaf(&[c], vals(3, c, true), true));
                    }
                    (Matmul { ta, tb, has_c }, l)
                }
                21 | 22 => {
                    let (image, filters): (Vec<usize>, Vec<usize>) = if i % kinds == 21 { (vec![1, 3, 3], vec![2, 1, 2, 2]) } else { (vec![2, 2, 3, 4], vec![1, 2, 2, 3]) };
                    (Conv { sr: 1, sc: 1 }, vec![leaf(&image, vals(1, numel(&image), true), tr[0]), leaf(&filters, vals(2, numel(&filters), true), tr[1])])
                }
                _ => (Mul, vec![leaf(&d, vals(1, n, true), tr[0]), leaf(&[1], vals(2, 1, true), tr[1])]),
            };
            let mut rs = refmodel::model::RefState::forward_only();
            let hs: Vec<usize> = leaves.iter().map(|l| rs.new_leaf(&l.dims, &l.vals, false)).collect();
            let out = rs.eval(&op, &hs).ok()?;
            let seed = if (z >> 50) % 6 == 0 { None } else { Some(wide_vals(z ^ 99, out.numel(), pick_base((z >> 52) as u8, gb), j, true)) };
            Some(GradCase { op, leaves, seed, uses: 1, passes: 1, same_operand: false, detached_clone: 0, view_of_first: None, swap_operands: false })
        }));
    }
    // dimensions at and beyond typical block / panel lengths (64 .. 130) in matmul, conv and element-wise operations
    {
        use OpKind::*;
        let mm: Vec<(usize, usize, usize)> = vec![(2, 3, 96), (3, 2, 97), (96, 2, 3), (2, 97, 2), (2, 130, 3), (128, 2, 2), (5, 5, 100), (1, 3, 128), (4, 64, 4)];
        let nmm = mm.len() as u64;
        st.merge(ctx.run_indexed("large-matmul-dimensions", nmm * 4 * 4, None, |i| {
            let (r, k, c) = mm[(i % nmm) as usize];
            let (ta, tb) = ((i / nmm) % 2 == 1, (i / nmm / 2) % 2 == 1);
            let tri = ((i / nmm / 4) % 4) as usize;
            let lead: Vec<usize> = if tri == 3 { vec![2] } else { vec![] };
            let mut a = lead.clone();
            a.extend(if ta { [k, r] } else { [r, k] });
            let b: Vec<usize> = if tb { vec![c, k] } else { vec![k, c] };
            let tr = [[true, false], [false, true], [true, true], [true, true]][tri];
            let leaves = vec![LeafSpec { dims: a.clone(), vals: gen_vals(i, numel(&a), VKind::Int), tracked: tr[0] }, LeafSpec { dims: b.clone(), vals: gen_vals(i + 1, numel(&b), VKind::Int), tracked: tr[1] }];
            let out_n = numel(&lead) * r * c;
            Some(GradCase { op: Matmul { ta, tb, has_c: false }, leaves, seed: Some(gen_vals(i + 2, out_n, VKind::Int)), uses: 1, passes: 1, same_operand: false, detached_clone: 0, view_of_first: None, swap_operands: false })
        }));
        let cv: Vec<(Vec<usize>, Vec<usize>, usize, usize)> = vec![
            (vec![6, 5, 5], vec![2, 6, 4, 4], 1, 1),
            (vec![2, 6, 6, 6], vec![1, 6, 4, 4], 2, 2),
            (vec![1, 12, 12], vec![1, 1, 10, 10], 1, 1),
            (vec![1, 3, 70], vec![2, 1, 2, 3], 1, 1),
            (vec![2, 9, 9], vec![3, 2, 7, 7], 1, 2),
            (vec![1, 20, 3], vec![1, 1, 2, 2], 3, 1),
        ];
        st.merge(ctx.run_indexed("large-conv-dimensions", cv.len() as u64 * 3, None, |i| {
            let (image, filters, sr, sc) = cv[(i / 3) as usize].clone();
            let tr = [[true, false], [false, true], [true, true]][(i % 3) as usize];
            let cfg = ConvCfg { image: image.clone(), filters: filters.clone(), sr, sc };
            let n = image.len();
            let out_n = numel(&image[..n - 3]) * filters[0] * cfg.out_windows();
            let leaves = vec![LeafSpec { dims: image.clone(), vals: gen_vals(i, numel(&image), VKind::Int), tracked: tr[0] }, LeafSpec { dims: filters.clone(), vals: gen_vals(i + 1, numel(&filters), VKind::Int), tracked: tr[1] }];
            Some(GradCase { op: Conv { sr, sc }, leaves, seed: Some(gen_vals(i + 2, out_n, VKind::Int)), uses: 1, passes: 1, same_operand: false, detached_clone: 0, view_of_first: None, swap_operands: false })
        }));
        // operands of IDENTICAL shape with 64 .. 130 elements, every tracked subset
        let shapes: Vec<Vec<usize>> = vec![vec![64], vec![8, 8], vec![4, 4, 4], vec![65], vec![16, 5], vec![100], vec![128], vec![2, 65], vec![13, 10]];
        let nsh = shapes.len() as u64;
        st.merge(ctx.run_indexed("equal-shapes-of-64-and-more-elements", nsh * 5 * 3, None, |i| {
            let d = shapes[(i % nsh) as usize].clone();
            let mut c = ew_case(&(d.clone(), d.clone()), ((i / nsh) % 5) as usize, (i / nsh / 5) as usize, true);
            c.seed = Some(gen_vals(i, numel(&d), VKind::Int));
            Some(c)
        }));
    }
    // an array against a reshaped view of itself
    {
        let va = view_alias_cases();
        st.merge(ctx.run_indexed("operand-is-a-view-of-the-other", va.len() as u64, None, |i| Some(va[i as usize].clone())));
    }
    // random values / sizes / parameters
    let (max_rank, max_size, total) = t.pick((4usize, 7usize, 240000u64), (5, 10, 1200000));
    let strat = move || {
        (0..17usize, prop::collection::vec(1..=max_size, 1..=max_rank), any::<[u8; 4]>(), -3.0f64..4.0, any::<u64>(), any::<u8>())
            .prop_map(|(opi, dims, p, e, vseed, tr)| RandRecipe { opi, dims, p, e: (e * 64.0).round() / 64.0, vseed, tr })
            .boxed()
    };
    let cap = t.pick(500usize, 1500);
    st.merge(ctx.run_prop("random-single-operations", total, strat, move |r| if numel(&r.dims) <= cap { random_case(r) } else { None }));
    st
}

pub fn run(ctx: &Ctx) -> i32 {
    let mut st = ctx.run_replays(&dispatch);
    st.merge(campaigns(ctx));
    if ctx.tier == Tier::Thorough {
        st.merge(ctx.run_fuzz(30000, ctx.threads, &dispatch));
    }
    finish(
        ctx,
        st,
        "cases = one operation applied to fresh leaves, then backward(seed): every unary operation/parameterisation on all small shapes, element-wise operations on all admissible small shape pairs with each tracked subset, matmul over (rows,inner,cols) x 4 transpose combinations x leading-dimension patterns x additive-term shapes x tracked subsets, conv over image/filter/stride/depth/count/batch x tracked subsets, plus proptest-sampled shapes, values, exponents and seeds. Oracle: forward-mode dual numbers through the reference definition (J^T seed). Non-trivial = result has more than one element and the seed is non-uniform, or the result is a single element fed by several; distinct by (operation+parameters, operand shapes, tracked flags, seed kind).",
        &[
            "integer/dyadic data through exact operations is compared bitwise; otherwise |got-ref| <= rtol*(|ref|+magnitude)+atol with rtol 1e-9 (f64)",
            "values stay in well-conditioned ranges: ln/reciprocal/division arguments with magnitude in [0.25,4], exp/sigmoid/softmax arguments in [-3,3], powf bases in [0.25,4] for non-integer exponents",
            "relu'(0) = 0 (corgi's documented convention)",
        ],
        json!({}),
    )
}
