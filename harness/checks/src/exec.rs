//! Executes typed histories against corgi. Every corgi call that may panic runs under catch_unwind.

use corgi::array::*;
use corgi::numbers::Float;
use corgi::optimizer::gd::GradientDescent;
use corgi::optimizer::Optimizer;
use refmodel::ir::*;
use std::cell::RefCell;
use std::panic::{catch_unwind, AssertUnwindSafe};
use std::rc::Rc;

/// marker of an executor error that is not corgi's fault: the case cannot be executed as typed
pub const HARNESS_DISCARD: &str = "HARNESS-DISCARD";
pub fn is_discard(msg: &str) -> bool {
    msg.starts_with(HARNESS_DISCARD)
}

pub const IS_F32: bool = std::mem::size_of::<Float>() == 4;

pub fn fl(v: f64) -> Float {
    v as Float
}
pub fn fls(v: &[f64]) -> Vec<Float> {
    v.iter().map(|x| *x as Float).collect()
}
pub fn f64s(v: &[Float]) -> Vec<f64> {
    v.iter().map(|x| *x as f64).collect()
}
pub fn arr(dims: &[usize], vals: &[f64]) -> Array {
    Array::from((dims.to_vec(), fls(vals)))
}

/// run a closure, turning a panic into Err(message)
pub fn guarded<X>(f: impl FnOnce() -> X) -> Result<X, String> {
    match catch_unwind(AssertUnwindSafe(f)) {
        Ok(x) => Ok(x),
        Err(p) => Err(if let Some(s) = p.downcast_ref::<String>() {
            s.clone()
        } else if let Some(s) = p.downcast_ref::<&str>() {
            s.to_string()
        } else {
            "panic".to_string()
        }),
    }
}

/// One invocation of a custom operation's derivative closure.
#[derive(Clone, Debug)]
pub struct LogEntry {
    pub custom_id: usize,
    pub delta_dims: Vec<usize>,
    pub delta: Vec<f64>,
    pub tracked: Vec<bool>,
}
pub type Log = Rc<RefCell<Vec<LogEntry>>>;

fn plain(dims: &[usize], vals: Vec<Float>) -> Array {
    Array::from((dims.to_vec(), vals))
}

/// forward/backward closures of the harness's custom operations; derivatives are computed with plain
/// slices (no corgi arithmetic), and every derivative invocation is logged
fn custom_closures(op: &OpKind, id: usize, log: Log) -> (ForwardOp, BackwardOp) {
    let zip2 = |f: fn(Float, Float) -> Float| -> ForwardOp {
        Rc::new(move |x: &[&Array]| {
            plain(x[0].dimensions(), x[0].values().iter().zip(x[1].values()).map(|(p, q)| f(*p, *q)).collect())
        })
    };
    let logit = move |t: &[bool], x: &Array, log: &Log| {
        log.borrow_mut().push(LogEntry {
            custom_id: id,
            delta_dims: x.dimensions().to_vec(),
            delta: f64s(x.values()),
            tracked: t.to_vec(),
        });
    };
    match op {
        OpKind::CAdd => {
            let fw = zip2(|p, q| p + q);
            let bw: BackwardOp = Rc::new(move |_c, t, x| {
                logit(t, x, &log);
                let d = || plain(x.dimensions(), x.values().to_vec());
                vec![if t[0] { Some(d()) } else { None }, if t[1] { Some(d()) } else { None }]
            });
            (fw, bw)
        }
        OpKind::CMul => {
            let fw = zip2(|p, q| p * q);
            let bw: BackwardOp = Rc::new(move |c, t, x| {
                logit(t, x, &log);
                let m = |u: &Array| plain(u.dimensions(), u.values().iter().zip(x.values()).map(|(p, q)| p * q).collect());
                vec![if t[0] { Some(m(&c[1])) } else { None }, if t[1] { Some(m(&c[0])) } else { None }]
            });
            (fw, bw)
        }
        OpKind::CScale(k) => {
            let k = *k as Float;
            let fw: ForwardOp = Rc::new(move |x: &[&Array]| plain(x[0].dimensions(), x[0].values().iter().map(|p| p * k).collect()));
            let bw: BackwardOp = Rc::new(move |_c, t, x| {
                logit(t, x, &log);
                vec![if t[0] { Some(plain(x.dimensions(), x.values().iter().map(|p| p * k).collect())) } else { None }]
            });
            (fw, bw)
        }
        OpKind::CFused3 => {
            let fw: ForwardOp = Rc::new(|x: &[&Array]| {
                plain(
                    x[0].dimensions(),
                    x[0].values().iter().zip(x[1].values()).zip(x[2].values()).map(|((p, q), r)| p * q + r).collect(),
                )
            });
            let bw: BackwardOp = Rc::new(move |c, t, x| {
                logit(t, x, &log);
                let m = |u: &Array| plain(u.dimensions(), u.values().iter().zip(x.values()).map(|(p, q)| p * q).collect());
                vec![
                    if t[0] { Some(m(&c[1])) } else { None },
                    if t[1] { Some(m(&c[0])) } else { None },
                    if t[2] { Some(plain(x.dimensions(), x.values().to_vec())) } else { None },
                ]
            });
            (fw, bw)
        }
        OpKind::CBAdd | OpKind::CBMul => {
            let is_mul = matches!(op, OpKind::CBMul);
            // broadcasting by plain index arithmetic; deltas are returned at the OUTPUT's shape
            fn bcast(a: &Array, b: &Array, f: impl Fn(Float, Float) -> Float) -> Array {
                let dims = refmodel::tensor::broadcast_dims(a.dimensions(), b.dimensions()).expect("custom broadcast: incompatible shapes");
                let n: usize = dims.iter().product();
                let vals = (0..n)
                    .map(|k| {
                        let idx = refmodel::tensor::unravel(k, &dims);
                        f(a.values()[refmodel::tensor::ravel_broadcast(&idx, a.dimensions())], b.values()[refmodel::tensor::ravel_broadcast(&idx, b.dimensions())])
                    })
                    .collect();
                plain(&dims, vals)
            }
            let fw: ForwardOp = if is_mul { Rc::new(|x: &[&Array]| bcast(x[0], x[1], |p, q| p * q)) } else { Rc::new(|x: &[&Array]| bcast(x[0], x[1], |p, q| p + q)) };
            let bw: BackwardOp = Rc::new(move |c, t, x| {
                logit(t, x, &log);
                let d = |other: &Array| if is_mul { bcast(other, x, |p, q| p * q) } else { plain(x.dimensions(), x.values().to_vec()) };
                vec![if t[0] { Some(d(&c[1])) } else { None }, if t[1] { Some(d(&c[0])) } else { None }]
            });
            (fw, bw)
        }
        _ => unreachable!(),
    }
}

/// `start_tracking` returns the previous flag; restore it afterwards
pub fn probe_tracked(a: &Array) -> bool {
    let prev = a.start_tracking();
    if !prev {
        a.stop_tracking();
    }
    prev
}

/// the three closures of corgi::activation, created once and reused for every call (hidden state in a closure
/// would otherwise never be observed)
pub struct Acts {
    pub relu: corgi::activation::Activation,
    pub sigmoid: corgi::activation::Activation,
    pub softmax: corgi::activation::Activation,
    pub mse: corgi::cost::CostFunction,
    pub cross_entropy: corgi::cost::CostFunction,
}
impl Acts {
    pub fn fresh() -> Rc<Acts> {
        Rc::new(Acts { relu: corgi::activation::relu(), sigmoid: corgi::activation::sigmoid(), softmax: corgi::activation::softmax(), mse: corgi::cost::mse(), cross_entropy: corgi::cost::cross_entropy() })
    }
}
thread_local! {
    /// installed by a call sequence so that all of its calls share one set of closures
    static SHARED_ACTS: RefCell<Option<Rc<Acts>>> = RefCell::new(None);
}
pub fn with_shared_acts<X>(f: impl FnOnce() -> X) -> X {
    SHARED_ACTS.with(|s| *s.borrow_mut() = Some(Acts::fresh()));
    let r = f();
    SHARED_ACTS.with(|s| *s.borrow_mut() = None);
    r
}

pub struct Exec {
    pub acts: Rc<Acts>,
    pub slots: Vec<Option<Array>>,
    pub log: Log,
    pub n_custom: usize,
    /// custom id of the operation that produced each slot (if it is a custom operation result)
    pub custom_of_slot: Vec<Option<usize>>,
    /// explicit seeds handed to `backward` are kept by the caller (a clone and a reshaped view of each): a pass that
    /// changed one of them is recorded here (judged by C08 only)
    pub seed_mutations: Vec<String>,
    /// keep a clone and a view of every explicit seed across the pass (default); off: the seed is handed over as the
    /// only handle on its buffer
    pub keep_seeds: bool,
}

impl Exec {
    pub fn new() -> Exec {
        let acts = SHARED_ACTS.with(|s| s.borrow().clone()).unwrap_or_else(Acts::fresh);
        Exec { acts, slots: Vec::new(), log: Rc::new(RefCell::new(Vec::new())), n_custom: 0, custom_of_slot: Vec::new(), seed_mutations: Vec::new(), keep_seeds: true }
    }
    pub fn get(&self, h: usize) -> &Array {
        self.slots[h].as_ref().expect("dead slot")
    }
    fn push(&mut self, a: Option<Array>) -> usize {
        self.slots.push(a);
        self.custom_of_slot.push(None);
        self.slots.len() - 1
    }

    /// evaluate an operation; panics propagate to the caller's guard
    pub fn eval(&mut self, op: &OpKind, args: &[usize]) -> Array {
        use OpKind::*;
        if let Stack(_) = op {
            // nested construction takes its parts by value: the handles move into the call
            let parts: Vec<Array> = args.iter().map(|&h| self.slots[h].take().expect("dead slot")).collect();
            return Array::from(parts);
        }
        if op.consumes_operand() {
            // the closures of corgi::activation take the array by value: the handle moves into the call
            let x = self.slots[args[0]].take().expect("dead slot");
            let acts = Rc::clone(&self.acts);
            return match op {
                ActRelu => (acts.relu)(x),
                ActSigmoid => (acts.sigmoid)(x),
                _ => (acts.softmax)(x),
            };
        }
        let a: Vec<&Array> = args.iter().map(|&h| self.slots[h].as_ref().expect("dead slot")).collect();
        match op {
            Add => a[0] + a[1],
            Sub => a[0] - a[1],
            Mul => a[0] * a[1],
            Div => a[0] / a[1],
            Neg => -a[0],
            ScaleR(k) => a[0] * fl(*k),
            ScaleL(k) => fl(*k) * a[0],
            Powf(e) => a[0].powf(fl(*e)),
            Ln => a[0].ln(),
            Exp => a[0].exp(),
            Recip => a[0].reciprocal(),
            Sum(k) => a[0].sum(*k),
            Reshape(d) => a[0].reshape(d.clone()),
            Axpy(al) => Array::axpy(fl(*al), a[0], a[1]),
            Matmul { ta, tb, has_c } => Array::matmul((a[0], *ta), (a[1], *tb), if *has_c { Some(a[2]) } else { None }),
            Conv { sr, sc } => a[0].conv(a[1], (*sr, *sc)),
            Relu => a[0].relu(),
            Sigmoid => a[0].sigmoid(),
            Softmax => a[0].softmax(),
            ActRelu | ActSigmoid | ActSoftmax | Stack(_) => unreachable!(),
            CostMse => (self.acts.mse)(a[0], a[1]),
            CostCe => (self.acts.cross_entropy)(a[0], a[1]),
            CAdd | CMul | CScale(_) | CFused3 | CBAdd | CBMul => {
                let id = self.n_custom;
                let (fw, bw) = custom_closures(op, id, Rc::clone(&self.log));
                // the caller decides whether a custom operation is differentiable: the harness passes a
                // derivative exactly when an operand is tracked (the rule built-in operations follow)
                let any = a.iter().any(|x| probe_tracked(x));
                let r = Array::op(&a, fw, if any { Some(bw) } else { None });
                self.n_custom += 1;
                r
            }
        }
    }

    fn custom_id_for(&self, op: &OpKind) -> Option<usize> {
        if op.is_custom() {
            Some(self.n_custom)
        } else {
            None
        }
    }

    /// Execute one step. Err(message) = corgi panicked.
    pub fn step(&mut self, s: &Step) -> Result<(), String> {
        match s {
            Step::Leaf { dims, vals, tracked } => {
                let a = guarded(|| arr(dims, vals))?;
                let a = if *tracked { a.tracked() } else { a };
                self.push(Some(a));
            }
            Step::Apply(sp) => {
                let cid = self.custom_id_for(&sp.op);
                let r = guarded(|| self.eval(&sp.op, &sp.args))?;
                let h = self.push(Some(r));
                self.custom_of_slot[h] = cid;
            }
            Step::Clone { h } => {
                let c = self.get(*h).clone();
                self.push(Some(c));
            }
            Step::Drop { h } => {
                let a = self.slots[*h].take();
                guarded(move || drop(a))?;
            }
            Step::Rebind { target, spec } => {
                let cid = self.custom_id_for(&spec.op);
                let r = guarded(|| self.eval(&spec.op, &spec.args))?;
                let old = self.slots[*target].replace(r);
                self.custom_of_slot[*target] = cid;
                guarded(move || drop(old))?;
            }
            Step::IfGt { cond, elem, thr, target, then_, else_ } => {
                if *elem >= self.get(*cond).values().len() {
                    return Err(format!("{}: the branch condition indexes element {} of an array with {} elements", HARNESS_DISCARD, elem, self.get(*cond).values().len()));
                }
                let v = self.get(*cond).values()[*elem] as f64;
                let spec = if v > *thr { Some(then_) } else { else_.as_ref() };
                if let Some(spec) = spec {
                    let cid = self.custom_id_for(&spec.op);
                    let r = guarded(|| self.eval(&spec.op, &spec.args))?;
                    let old = self.slots[*target].replace(r);
                    self.custom_of_slot[*target] = cid;
                    guarded(move || drop(old))?;
                }
            }
            Step::Flag { h, how } => match how {
                FlagOp::Tracked => {
                    let a = self.slots[*h].take().unwrap();
                    self.slots[*h] = Some(a.tracked());
                }
                FlagOp::Untracked => {
                    let a = self.slots[*h].take().unwrap();
                    self.slots[*h] = Some(a.untracked());
                }
                FlagOp::Start => {
                    self.get(*h).start_tracking();
                }
                FlagOp::Stop => {
                    self.get(*h).stop_tracking();
                }
            },
            Step::Backward { h, seed } => {
                let a = self.get(*h);
                if let Some(s) = seed {
                    if s.len() != a.values().len() {
                        // the forward result does not have the shape the case was typed with (judged by C04-C07)
                        return Err(format!("{}: the root has {} elements, the seed {}", HARNESS_DISCARD, a.values().len(), s.len()));
                    }
                }
                let seed = seed.as_ref().map(|s| arr(a.dimensions(), s));
                // the caller keeps its seed: a clone and a flat view of it must read the same afterwards
                let kept = if self.keep_seeds { seed.as_ref().map(|s| (s.clone(), s.reshape(vec![s.values().len()]), s.values().iter().map(|v| (*v as f64).to_bits()).collect::<Vec<u64>>())) } else { None };
                guarded(|| a.backward(seed))?;
                if let Some((c, v, bits)) = kept {
                    for (what, arr_) in [("the seed", &c), ("a reshaped view of the seed", &v)] {
                        let now: Vec<u64> = arr_.values().iter().map(|x| (*x as f64).to_bits()).collect();
                        if now != bits {
                            let i = now.iter().zip(&bits).position(|(p, q)| p != q).unwrap_or(0);
                            self.seed_mutations.push(format!("{} handed to backward changed during the pass: element {} was {:?}, is {:?}", what, i, bits.get(i).map(|b| f64::from_bits(*b)), now.get(i).map(|b| f64::from_bits(*b))));
                        }
                    }
                }
            }
            Step::ReadGrad { h } => {
                let g = guarded(|| self.get(*h).gradient().clone())?;
                self.push(g);
            }
            Step::ClearGrad { h, via_replace } => {
                let a = self.get(*h);
                if *via_replace {
                    guarded(|| drop(a.replace_gradient()))?;
                } else {
                    guarded(|| *a.gradient_mut() = None)?;
                }
            }
            Step::Copy { h } => {
                let a = self.get(*h);
                let c = Array::from((a.dimensions().to_vec(), a.values().to_vec()));
                self.push(Some(c));
            }
            Step::RefusedOp { h } => {
                let a = self.get(*h);
                let fw: corgi::array::ForwardOp = Rc::new(|_x: &[&Array]| panic!("this custom operation refuses its operands"));
                let bw: corgi::array::BackwardOp = Rc::new(|_c, _t, d| vec![Some(Array::from((d.dimensions().to_vec(), d.values().to_vec())))]);
                // the refusal is the expected outcome; a call that returns is dropped
                let _ = guarded(|| drop(Array::op(&[a], fw, Some(bw))));
            }
            Step::ProbeSole { h } => {
                let a = self.slots[*h].take().expect("dead slot");
                let dims = a.dimensions().to_vec();
                let tracked = probe_tracked(&a);
                let grad = a.replace_gradient();
                // residue probe: with every derived result gone, a fresh pass through the array must behave as on a
                // new array (a counter or pending value left behind by an earlier pass would show here)
                a.start_tracking();
                let fresh = guarded(|| {
                    let t = &a * (2.0 as Float);
                    t.backward(None);
                    let g = a.replace_gradient();
                    drop(t);
                    g.map(|g| g.dimensions() == a.dimensions() && g.values().iter().all(|v| *v == 2.0))
                });
                if !tracked {
                    a.stop_tracking();
                }
                match fresh {
                    Ok(Some(true)) => {}
                    Ok(Some(false)) => return Err("left with pending state: a fresh pass y = 2*x; y.backward(None) gives x a gradient other than 2".to_string()),
                    Ok(None) => return Err("left with pending state: a fresh pass y = 2*x; y.backward(None) gives x no gradient at all".to_string()),
                    Err(p) => return Err(format!("left with pending state: a fresh pass y = 2*x; y.backward(None) panics: {}", p)),
                }
                let v: Vec<Float> = guarded(move || Vec::<Float>::from(a)).map_err(|p| format!("not the sole owner of its buffer: {}", p))?;
                let b = Array::from((dims, v));
                let b = if tracked { b.tracked() } else { b };
                *b.gradient_mut() = grad;
                self.slots[*h] = Some(b);
            }
            Step::Update { lr, params } => {
                let mut taken: Vec<Array> = params.iter().map(|&p| self.slots[p].take().expect("dead slot")).collect();
                let r = guarded(|| {
                    let gd = GradientDescent::new(fl(*lr));
                    gd.update(taken.iter_mut().collect());
                });
                for (p, a) in params.iter().zip(taken) {
                    self.slots[*p] = Some(a);
                }
                r?;
            }
        }
        Ok(())
    }
}

/// Data-dependent branches: the model and the library must take the same branch for the case to be typed the
/// way it was generated. Returns a discard reason when the model's value is within rounding noise of the
/// threshold (scaled by the magnitude of the terms that produced it; wider in the f32 build) or when the two
/// sides disagree.
pub fn branch_guard(m: &refmodel::model::RefState, ex: &Exec, s: &Step) -> Option<String> {
    if let Step::IfGt { cond, elem, thr, .. } = s {
        let node = m.node_of(*cond);
        if *elem >= node.t.vals.len() || *elem >= ex.get(*cond).values().len() {
            return Some("the forward result does not have the shape the case was typed with".into());
        }
        let (mv, vm) = (node.t.vals[*elem].v, node.t.vals[*elem].vm);
        let rel = if IS_F32 { 1e-3 } else { 1e-6 };
        if (mv - thr).abs() < rel * (1.0 + vm.abs() + thr.abs()) {
            return Some("branch value within rounding noise of the threshold".into());
        }
        let ev = ex.get(*cond).values()[*elem] as f64;
        if (mv > *thr) != (ev > *thr) {
            return Some("the library and the reference take different branches (forward values are judged by C04-C07)".into());
        }
    }
    None
}

/// Calls that the library refuses (each inside `guarded`, results ignored) on throw-away arrays: a mismatching
/// element-wise pair, a reshape to another element count, nested arrays of different shapes, a matmul with a
/// mismatching inner dimension, a pass whose seed does not fit its result, a custom operation whose forward closure
/// panics, a cost on incompatible arrays. None of them may leave anything behind that a later, valid computation on
/// OTHER arrays in the same thread can observe (the arrays involved here are dropped).
pub fn refused_calls_battery() -> usize {
    let mut refused = 0;
    let mut tally = |r: Result<(), String>| {
        if r.is_err() {
            refused += 1;
        }
    };
    tally(guarded(|| drop(&arr(&[2, 3], &[1.0; 6]) * &arr(&[2, 4], &[1.0; 8]))));
    tally(guarded(|| drop(arr(&[6], &[1.0; 6]).reshape(vec![4, 2]))));
    tally(guarded(|| drop(Array::from(vec![arr(&[2], &[1.0, 2.0]), arr(&[3], &[1.0, 2.0, 3.0])]))));
    tally(guarded(|| drop(Array::matmul((&arr(&[2, 3], &[1.0; 6]), false), (&arr(&[2, 2], &[1.0; 4]), false), None))));
    tally(guarded(|| {
        let a = arr(&[2], &[1.0, 2.0]).tracked();
        let b = arr(&[2], &[3.0, 4.0]).tracked();
        let y = &a * &b;
        y.backward(Some(arr(&[3], &[1.0, 2.0, 3.0])));
    }));
    tally(guarded(|| {
        let a = arr(&[2], &[1.0, 2.0]).tracked();
        let fw: corgi::array::ForwardOp = Rc::new(|_x: &[&Array]| panic!("this custom operation refuses its operands"));
        let bw: corgi::array::BackwardOp = Rc::new(|_c, _t, d| vec![Some(Array::from((d.dimensions().to_vec(), d.values().to_vec())))]);
        drop(Array::op(&[&a], fw, Some(bw)));
    }));
    tally(guarded(|| drop((corgi::cost::mse())(&arr(&[2, 3], &[1.0; 6]), &arr(&[4], &[1.0; 4])))));
    refused
}
