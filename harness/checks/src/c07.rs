//! C07 Reductions, reshape and point-wise functions compute their definitions.

use crate::c02::{vkind_for, POWF_EXPONENTS};
use crate::cmp::*;
use crate::exec::*;
use crate::gens::*;
use crate::opcase::*;
use crate::runner::*;
use crate::vals::*;
use proptest::prelude::*;
use refmodel::ir::OpKind;
use refmodel::tensor::*;
use serde::{Deserialize, Serialize};
use serde_json::{json, Value};

/// `sum_all` returns a scalar, and softmax additionally has validity predicates
#[derive(Clone, Debug, Serialize, Deserialize)]
pub enum ScalarCase {
    SumAll(LeafSpec),
    SoftmaxRows(LeafSpec),
    /// `sum(0)` must be value- and shape-identical
    SumZero(LeafSpec),
    /// the SAME array reshaped to a target with another element count, twice in a row (refused both times, nothing
    /// else constructed in between), then to a valid target
    ReshapeRefusedTwice { leaf: LeafSpec, bad: Vec<usize>, good: Vec<usize> },
}

impl CaseKind for ScalarCase {
    const KIND: &'static str = "c07-scalar";
    fn size(&self) -> usize {
        match self {
            ScalarCase::SumAll(l) | ScalarCase::SoftmaxRows(l) | ScalarCase::SumZero(l) => l.vals.len() + l.dims.len(),
            ScalarCase::ReshapeRefusedTwice { leaf, .. } => leaf.vals.len() + leaf.dims.len() + 2,
        }
    }
    fn sample(&self) -> Value {
        match self {
            ScalarCase::SumAll(l) => json!({"sum_all": l.dims}),
            ScalarCase::SoftmaxRows(l) => json!({"softmax_rows": l.dims}),
            ScalarCase::SumZero(l) => json!({"sum0": l.dims}),
            ScalarCase::ReshapeRefusedTwice { leaf, bad, good } => json!({"reshape-refused-twice": leaf.dims, "bad": bad, "good": good}),
        }
    }
    fn run(&self) -> Outcome {
        match self {
            ScalarCase::ReshapeRefusedTwice { leaf, bad, good } => {
                let mut k = KeyHasher::new("reshape2");
                k.us(&leaf.dims).us(bad).us(good);
                let classes = vec!["op:reshape".to_string(), "expect:refuse-twice".to_string()];
                let a = arr(&leaf.dims, &leaf.vals);
                let a = if leaf.tracked { a.tracked() } else { a };
                for attempt in 1..=2 {
                    if let Ok(r) = guarded(|| a.reshape(bad.clone())) {
                        return Outcome::fail("not-refused", format!("not-refused:reshape:attempt-{}", attempt), format!("reshape of dims {:?} ({} values) to {:?} must be refused (attempt {} on the same array) but returned dims {:?} with {} values", leaf.dims, leaf.vals.len(), bad, attempt, r.dimensions(), r.values().len()), k.finish(), classes);
                    }
                }
                match guarded(|| a.reshape(good.clone())) {
                    Err(p) => Outcome::fail("unexpected-panic", "unexpected-panic:reshape:after-refusals".into(), format!("reshape of dims {:?} to {:?} panicked after two refused reshapes: {}", leaf.dims, good, p), k.finish(), classes),
                    Ok(r) => {
                        if r.dimensions() == &good[..] && r.values().iter().zip(a.values()).all(|(x, y)| x.to_bits() == y.to_bits()) && r.values().len() == a.values().len() {
                            Outcome::pass(true, k.finish(), classes)
                        } else {
                            Outcome::fail("value-mismatch", "value-mismatch:reshape:after-refusals".into(), format!("reshape of dims {:?} to {:?} after two refused reshapes gave dims {:?} values {:?}", leaf.dims, good, r.dimensions(), &r.values()[..r.values().len().min(8)]), k.finish(), classes)
                        }
                    }
                }
            }
            ScalarCase::SumAll(l) => {
                let mut k = KeyHasher::new("sumall");
                k.us(&l.dims);
                let classes = vec!["op:sum_all".to_string(), format!("shape:rank={}", l.dims.len())];
                let t = T::from_f64(&l.dims, &l.vals);
                let want = refmodel::ops::sum_all(&t);
                let got = match guarded(|| arr(&l.dims, &l.vals).sum_all()) {
                    Ok(g) => g as f64,
                    Err(p) => return Outcome::fail("unexpected-panic", "unexpected-panic:sum_all".into(), format!("sum_all on dims {:?} panicked: {}", l.dims, p), k.finish(), classes),
                };
                let exact = l.vals.iter().all(|v| refmodel::model::is_exact_value(*v)) && want.vm < exact_limit();
                if close(got, want.v, want.vm, exact) {
                    Outcome::pass(l.vals.len() > 1, k.finish(), classes)
                } else {
                    Outcome::fail("value-mismatch", "value-mismatch:sum_all".into(), format!("sum_all of dims {:?} values {:?} is {:?}, expected {:?}", l.dims, l.vals, got, want.v), k.finish(), classes)
                }
            }
            ScalarCase::SumZero(l) => {
                let mut k = KeyHasher::new("sum0");
                k.us(&l.dims);
                let classes = vec!["op:sum(k=0)".to_string(), format!("shape:rank={}", l.dims.len())];
                match guarded(|| {
                    let a = arr(&l.dims, &l.vals);
                    let s = a.sum(0);
                    (s.dimensions().to_vec(), f64s(s.values()), f64s(a.values()))
                }) {
                    Err(p) => Outcome::fail("unexpected-panic", "unexpected-panic:sum0".into(), format!("sum(0) on dims {:?} panicked: {}", l.dims, p), k.finish(), classes),
                    Ok((d, v, orig)) => {
                        if d == l.dims && v.iter().zip(&orig).all(|(x, y)| x.to_bits() == y.to_bits()) {
                            Outcome::pass(l.vals.len() > 1, k.finish(), classes)
                        } else {
                            Outcome::fail("value-mismatch", "value-mismatch:sum0".into(), format!("sum(0) of dims {:?} gave dims {:?} values {:?}", l.dims, d, v), k.finish(), classes)
                        }
                    }
                }
            }
            ScalarCase::SoftmaxRows(l) => {
                let mut k = KeyHasher::new("softmaxrows");
                k.us(&l.dims);
                let classes = vec!["op:softmax-predicates".to_string(), format!("shape:rank={}", l.dims.len())];
                let len = *l.dims.last().unwrap();
                match guarded(|| {
                    let s = arr(&l.dims, &l.vals).softmax();
                    (s.dimensions().to_vec(), f64s(s.values()))
                }) {
                    Err(p) => Outcome::fail("unexpected-panic", "unexpected-panic:softmax".into(), format!("softmax on dims {:?} panicked: {}", l.dims, p), k.finish(), classes),
                    Ok((d, v)) => {
                        if d != l.dims {
                            return Outcome::fail("wrong-dimensions", "wrong-dimensions:softmax".into(), format!("softmax of dims {:?} has dims {:?}", l.dims, d), k.finish(), classes);
                        }
                        let eps = if IS_F32 { f32::EPSILON as f64 } else { f64::EPSILON };
                        for (ri, row) in v.chunks(len).enumerate() {
                            let s: f64 = row.iter().sum();
                            if row.iter().any(|x| !(*x >= 0.0)) || (s - 1.0).abs() > 4.0 * eps * (len as f64 + 1.0) {
                                return Outcome::fail(
                                    "softmax-row",
                                    "softmax-row-not-a-distribution".into(),
                                    format!("softmax of dims {:?}: last-dimension row {} is {:?} (sum {:?}); every row must be non-negative and sum to one", l.dims, ri, row, s),
                                    k.finish(),
                                    classes,
                                );
                            }
                        }
                        Outcome::pass(len > 1 && v.len() > len, k.finish(), classes)
                    }
                }
            }
        }
    }
}

fn map_ops() -> Vec<OpKind> {
    use OpKind::*;
    let mut v = vec![Neg, ScaleR(2.5), ScaleL(-0.75), Ln, Exp, Recip, Relu, Sigmoid, Softmax];
    for e in POWF_EXPONENTS {
        v.push(Powf(e));
    }
    v
}

fn fwd1(op: OpKind, dims: &[usize], salt: u64) -> FwdCase {
    let kind = vkind_for(&op);
    let vals = match op {
        OpKind::Sum(_) | OpKind::Reshape(_) => iota(numel(dims), 1.0, 1.0),
        _ => gen_vals(salt, numel(dims), kind),
    };
    FwdCase { op, leaves: vec![LeafSpec { dims: dims.to_vec(), vals, tracked: false }], force_exact: None, second_is_view_of_first: None }
}

fn enumerated(shapes: &[Vec<usize>]) -> Vec<FwdCase> {
    let mut out = vec![];
    for (si, s) in shapes.iter().enumerate() {
        for k in 0..=s.len() {
            out.push(fwd1(OpKind::Sum(k), s, 0));
        }
        let n = numel(s);
        for target in shapes_with_numel(n) {
            out.push(fwd1(OpKind::Reshape(target), s, 0));
        }
        // refusals: a different element count, a zero dimension
        out.push(fwd1(OpKind::Reshape(vec![n + 1]), s, 0));
        out.push(fwd1(OpKind::Reshape(vec![n, 0]), s, 0));
        if n > 1 {
            out.push(fwd1(OpKind::Reshape(vec![n - 1]), s, 0));
            out.push(fwd1(OpKind::Reshape(vec![s[0]]), s, 0));
        }
        let mut t2 = s.clone();
        t2.push(2);
        out.push(fwd1(OpKind::Reshape(t2), s, 0));
        for op in map_ops() {
            out.push(fwd1(op, s, si as u64 * 7 + 1));
        }
    }
    out
}

#[derive(Clone, Debug)]
struct R7 {
    dims: Vec<usize>,
    opi: usize,
    p: u8,
    e: f64,
    vseed: u64,
}

#[derive(Clone, Debug, Serialize, Deserialize)]
pub enum Case7 {
    F(FwdCase),
    S(ScalarCase),
    Q(SeqCase),
}
impl CaseKind for Case7 {
    const KIND: &'static str = "c07-any";
    fn size(&self) -> usize {
        match self {
            Case7::F(c) => c.size(),
            Case7::S(c) => c.size(),
            Case7::Q(c) => c.size(),
        }
    }
    fn sample(&self) -> Value {
        match self {
            Case7::F(c) => c.sample(),
            Case7::S(c) => c.sample(),
            Case7::Q(c) => c.sample(),
        }
    }
    fn run(&self) -> Outcome {
        match self {
            Case7::F(c) => c.run(),
            Case7::S(c) => c.run(),
            Case7::Q(c) => c.run(),
        }
    }
}

fn random_case(r: &R7) -> Option<Case7> {
    use OpKind::*;
    let n = numel(&r.dims);
    if n > 4000 {
        return None;
    }
    let ops = map_ops();
    Some(match r.opi {
        0 => Case7::F(fwd1(Sum(r.p as usize % (r.dims.len() + 1)), &r.dims, r.vseed)),
        1 => {
            let t = shapes_with_numel(n);
            Case7::F(fwd1(Reshape(t[r.p as usize * t.len() / 256].clone()), &r.dims, r.vseed))
        }
        2 => Case7::S(ScalarCase::SumAll(LeafSpec { dims: r.dims.clone(), vals: gen_vals(r.vseed, n, VKind::Small), tracked: false })),
        3 => Case7::S(ScalarCase::SoftmaxRows(LeafSpec { dims: r.dims.clone(), vals: gen_vals(r.vseed, n, VKind::Small), tracked: false })),
        4 => Case7::F(fwd1(Powf(r.e), &r.dims, r.vseed)),
        5 => {
            let mut c = fwd1(Sum(r.p as usize % (r.dims.len() + 1)), &r.dims, r.vseed);
            c.leaves[0].vals = gen_vals(r.vseed, n, VKind::Small);
            Case7::F(c)
        }
        i => Case7::F(fwd1(ops[(i - 6) % ops.len()].clone(), &r.dims, r.vseed)),
    })
}

pub fn dispatch(kind: &str, v: &Value) -> Option<Outcome> {
    match kind {
        "forward-op" => serde_json::from_value::<FwdCase>(v.clone()).ok().map(|c| c.run()),
        "c07-scalar" => serde_json::from_value::<ScalarCase>(v.clone()).ok().map(|c| c.run()),
        "c07-any" => serde_json::from_value::<Case7>(v.clone()).ok().map(|c| c.run()),
        "forward-op-reuse-sequence" => serde_json::from_value::<ReuseSeqCase>(v.clone()).ok().map(|c| c.run()),
        _ => None,
    }
}

pub fn campaigns(ctx: &Ctx) -> Stats {
    let mut st = Stats::default();
    let t = ctx.tier;
    let shapes = all_shapes(4, 3);
    // ONE array (itself, clones, reshaped views of its buffer) reduced, reshaped and mapped several times in a row: every
    // sum(k1) / sum(k2) pair on all 120 shapes, then random triples of the unary operations: a result must not depend
    // on what was computed from the same object before (results remembered per array)
    {
        use OpKind::*;
        let ns = shapes.len() as u64;
        st.merge(ctx.run_indexed("same-array-summed-twice", ns * 25 * 4, Some("all 120 shapes x all (k1, k2) in 0..=4 (within the rank) x {direct, clone} x {untracked, tracked}: sum(k1), sum(k2), sum(k1) on ONE array"), |i| {
            let d = &shapes[(i % ns) as usize];
            let (k1, k2) = (((i / ns) % 5) as usize, ((i / ns / 5) % 5) as usize);
            let v = i / ns / 25;
            if k1 > d.len() || k2 > d.len() {
                return None;
            }
            let arg = |c: bool| ReuseArg { leaf: 0, view: None, via_clone: c };
            Some(ReuseSeqCase { leaves: vec![LeafSpec { dims: d.clone(), vals: gen_vals(i, numel(d), VKind::Int), tracked: v & 2 == 2 }], calls: vec![ReuseCall { op: Sum(k1), args: vec![arg(false)] }, ReuseCall { op: Sum(k2), args: vec![arg(v & 1 == 1)] }, ReuseCall { op: Sum(k1), args: vec![arg(false)] }] })
        }));
        st.merge(ctx.run_indexed("same-array-through-several-operations", t.pick(150_000, 600_000), None, |i| {
            let z = mix(i ^ 0xC07A ^ ctx.seed.wrapping_mul(0x9E3779B1));
            let d = shapes[(z % ns) as usize].clone();
            let views = shapes_with_numel(numel(&d));
            let mut calls = vec![];
            for c in 0..3u64 {
                let y = mix(z ^ (c + 31));
                let view = if (y >> 1) & 3 == 0 { Some(views[((y >> 8) % views.len() as u64) as usize].clone()) } else { None };
                let rank = view.as_ref().map_or(d.len(), |v| v.len());
                let op = match (y >> 16) % 9 {
                    0 | 1 | 2 => Sum(((y >> 24) % (rank as u64 + 1)) as usize),
                    3 => Softmax,
                    4 => Exp,
                    5 => Relu,
                    6 => Sigmoid,
                    7 => Neg,
                    _ => Reshape(views[((y >> 30) % views.len() as u64) as usize].clone()),
                };
                calls.push(ReuseCall { op, args: vec![ReuseArg { leaf: 0, view, via_clone: (y >> 3) & 1 == 1 }] });
            }
            Some(ReuseSeqCase { leaves: vec![LeafSpec { dims: d.clone(), vals: gen_vals(z, numel(&d), VKind::Small), tracked: (z >> 62) & 1 == 1 }], calls })
        }));
    }
    let cases = enumerated(&shapes);
    st.merge(ctx.run_indexed(
        "enumerated-shapes",
        cases.len() as u64,
        Some("all shapes of rank 1..4 with sizes 1..3: sum(k) for every k in 0..=rank, reshape to every ordered factorisation (rank<=4) and to refused targets (different count, zero dimension), every point-wise function incl. 11 powf exponents"),
        |i| Some(cases[i as usize].clone()),
    ));
    st.merge(ctx.run_indexed("enumerated-shapes-tracked-operand", cases.len() as u64, None, |i| {
        let mut c = cases[i as usize].clone();
        c.leaves[0].tracked = true;
        Some(c)
    }));
    let ns = shapes.len() as u64;
    st.merge(ctx.run_indexed("enumerated-scalars", ns * 3, Some("sum_all, sum(0) identity and the softmax row predicates on all shapes of rank 1..4, sizes 1..3"), |i| {
        let s = &shapes[(i / 3) as usize];
        let l = |kind| LeafSpec { dims: s.clone(), vals: gen_vals(i, numel(s), kind), tracked: false };
        Some(match i % 3 {
            0 => ScalarCase::SumAll(l(VKind::Int)),
            1 => ScalarCase::SumZero(l(VKind::Signed)),
            _ => ScalarCase::SoftmaxRows(l(VKind::Small)),
        })
    }));
    // the same array asked twice for a reshape that must be refused, then for a valid one
    st.merge(ctx.run_indexed("reshape-refused-twice", ns * 3, None, |i| {
        let s = &shapes[(i / 3) as usize];
        let n = numel(s);
        let bad = match i % 3 {
            0 => vec![n + 1],
            1 => vec![n, 2],
            _ => {
                let mut b = s.clone();
                b[0] += 1;
                b
            }
        };
        let goods = shapes_with_numel(n);
        let good = goods[(i as usize) % goods.len()].clone();
        Some(Case7::S(ScalarCase::ReshapeRefusedTwice { leaf: LeafSpec { dims: s.clone(), vals: iota(n, 1.0, 1.0), tracked: i % 2 == 1 }, bad, good }))
    }));
    // softmax / exp / sigmoid far from zero: rows at very different offsets (all finite in f32 and f64)
    st.merge(ctx.run_indexed("wide-range-rows", 6 * 5 * 5 * 3, None, |i| {
        let shapes: [&[usize]; 6] = [&[3], &[2, 3], &[3, 2], &[2, 2, 2], &[4, 1, 3], &[2, 3, 1]];
        // (the lowest offset makes a row's exponentials sum to a SUBNORMAL number: the quotients are still ordinary)
        let offs: [f64; 5] = if crate::exec::IS_F32 { [-95.0, -25.0, 0.0, 30.0, 55.0] } else { [-720.0, -350.0, 0.0, 360.0, 650.0] };
        let d = shapes[(i % 6) as usize];
        let (o1, o2) = (offs[((i / 6) % 5) as usize], offs[((i / 30) % 5) as usize]);
        let l = *d.last().unwrap();
        let n = numel(d);
        let vals: Vec<f64> = (0..n).map(|j| (if (j / l) % 2 == 0 { o1 } else { o2 }) + ((j * 7) % 5) as f64 * 0.5 - 1.0).collect();
        let leaf = LeafSpec { dims: d.to_vec(), vals, tracked: false };
        Some(match (i / 150) % 3 {
            0 => Case7::S(ScalarCase::SoftmaxRows(leaf)),
            1 => Case7::F(FwdCase { op: OpKind::Softmax, leaves: vec![leaf], force_exact: None, second_is_view_of_first: None }),
            _ => Case7::F(FwdCase { op: if o1 > o2 { OpKind::Exp } else { OpKind::Sigmoid }, leaves: vec![leaf], force_exact: None, second_is_view_of_first: None }),
        })
    }));
    {
        use OpKind::*;
        let pops = [Neg, ScaleR(1.0), ScaleR(0.0), ScaleL(2.0), Relu, Sigmoid, Exp, Softmax, Sum(1), Sum(2), Powf(2.0), Powf(1.0), Powf(0.0), Powf(3.0), ActRelu, ActSigmoid, ActSoftmax];
        let np_ = pops.len() as u64;
        st.merge(ctx.run_indexed("value-patterns", np_ * N_PATTERNS as u64 * 2, None, |i| {
            let pat = (i % N_PATTERNS as u64) as usize;
            let op = pops[((i / N_PATTERNS as u64) % np_) as usize].clone();
            let d: Vec<usize> = if i / N_PATTERNS as u64 / np_ == 0 { vec![2, 4] } else { vec![3, 1, 2] };
            Some(Case7::F(FwdCase { op, leaves: vec![LeafSpec { dims: d.clone(), vals: pattern_vals(pat, numel(&d), i), tracked: false }], force_exact: None, second_is_view_of_first: None }))
        }));
        // finite values close to the largest / smallest normal numbers: maps that must not overflow or flush
        st.merge(ctx.run_indexed("extreme-magnitudes", 8, None, |i| {
            let big = if IS_F32 { f32::MAX as f64 } else { f64::MAX };
            let tiny = if IS_F32 { f32::MIN_POSITIVE as f64 } else { f64::MIN_POSITIVE };
            let vals = vec![big, -big, big / 2.0, tiny, -tiny, tiny / 4.0, 1.0, 0.0];
            let op = [Relu, Neg, ScaleR(1.0), Reshape(vec![2, 4]), Sum(0), ScaleR(0.5), ActRelu, ScaleL(-1.0)][i as usize].clone();
            Some(Case7::F(FwdCase { op, leaves: vec![LeafSpec { dims: vec![8], vals, tracked: false }], force_exact: Some(true), second_is_view_of_first: None }))
        }));
        let nb = BOUNDARY_SIZES.len() as u64;
        let bops = [Sum(1), Sum(2), Softmax, Exp, Relu, Sigmoid];
        st.merge(ctx.run_indexed("boundary-sizes", nb * bops.len() as u64 * 3 + nb * 2, None, |i| {
            if i >= nb * bops.len() as u64 * 3 {
                let j = i - nb * bops.len() as u64 * 3;
                let n = BOUNDARY_SIZES[(j % nb) as usize] * if j / nb == 0 { 1 } else { 3 };
                return Some(Case7::S(ScalarCase::SumAll(LeafSpec { dims: vec![n], vals: gen_vals(j, n, VKind::Int), tracked: false })));
            }
            let n = BOUNDARY_SIZES[(i % nb) as usize];
            let op = bops[((i / nb) % bops.len() as u64) as usize].clone();
            let d = match i / nb / bops.len() as u64 {
                0 => vec![n],
                1 => vec![2, n],
                _ => vec![n, 3],
            };
            if let Sum(k) = &op {
                if *k > d.len() {
                    return None;
                }
            }
            let kind = if matches!(op, Sum(_) | Relu) { VKind::Int } else { VKind::Small };
            Some(Case7::F(FwdCase { op, leaves: vec![LeafSpec { dims: d.clone(), vals: gen_vals(i, numel(&d), kind), tracked: false }], force_exact: None, second_is_view_of_first: None }))
        }));
    }
    {
        use OpKind::*;
        let groups: Vec<Vec<Vec<usize>>> = vec![vec![vec![3, 1], vec![1, 3], vec![3]], vec![vec![4, 1], vec![4], vec![2, 2]], vec![vec![2, 3, 2], vec![6, 2], vec![12], vec![2, 6]], vec![vec![2, 1, 3], vec![3, 2], vec![1, 6]]];
        let sops = [Sum(1), Softmax, Sum(2), Exp, Relu, Sigmoid, ActSoftmax, ActSigmoid, ActRelu];
        st.merge(ctx.run_indexed("call-sequences", (groups.len() * sops.len()) as u64, None, |i| {
            let g = &groups[i as usize % groups.len()];
            let op = sops[i as usize / groups.len()].clone();
            let calls: Vec<FwdCase> = g.iter().filter(|d| !matches!(op, Sum(k) if k > d.len())).enumerate().map(|(n, d)| FwdCase { op: op.clone(), leaves: vec![LeafSpec { dims: d.clone(), vals: gen_vals(i + n as u64, numel(d), VKind::Small), tracked: n % 2 == 1 }], force_exact: None, second_is_view_of_first: None }).collect();
            Some(Case7::Q(SeqCase { calls }))
        }));
    }
    // arguments of very different magnitudes, full mantissas; exponents far outside the usual range
    {
        use OpKind::*;
        let (lin, mul, jit) = wide_exps();
        let arg_max = if IS_F32 { 80.0 } else { 700.0 };
        let shapes: Vec<Vec<usize>> = vec![vec![6], vec![2, 5], vec![3, 1, 4], vec![17]];
        let kinds = 16u64;
        st.merge(ctx.run_indexed("wide-magnitudes", kinds * shapes.len() as u64 * t.pick(1200, 25000), None, |i| {
            let d = shapes[((i / kinds) % shapes.len() as u64) as usize].clone();
            let n = numel(&d);
            let z = mix(i ^ 0xC07 ^ ctx.seed.wrapping_mul(0x9E3779B1));
            let j = if (z >> 20) & 1 == 0 { 0 } else { jit };
            let lin_vals = |signed: bool| wide_vals(z, n, pick_base(z as u8, lin), j, signed);
            let mul_vals = |signed: bool| wide_vals(z, n, pick_base(z as u8, mul), j, signed);
            // bounded arguments of exp-like functions: magnitudes from tiny to the largest that stays finite
            let arg_vals = || wide_vals(z, n, pick_base(z as u8, 40).min(9), j.min(8), true).into_iter().map(|v: f64| v.clamp(-arg_max, arg_max)).collect::<Vec<f64>>();
            let k = 2f64.powi(pick_base((z >> 8) as u8, 40)) * if (z >> 30) & 1 == 0 { 1.0 } else { -1.5 };
            let (op, vals): (OpKind, Vec<f64>) = match i % kinds {
                0 => (Neg, lin_vals(true)),
                1 => (ScaleR(k), mul_vals(true)),
                2 => (ScaleL(k), mul_vals(true)),
                3 => (Relu, lin_vals(true)),
                4 => (ActRelu, lin_vals(true)),
                5 => (Sum(1 + (z >> 40) as usize % d.len()), lin_vals(true)),
                6 => (Reshape(vec![n]), lin_vals(true)),
                7 => (Ln, lin_vals(false)),
                8 => (Recip, lin_vals(true)),
                9 => (Exp, arg_vals()),
                10 => (Sigmoid, arg_vals()),
                11 => (Softmax, arg_vals()),
                12 => (ActSigmoid, arg_vals()),
                13 => (ActSoftmax, arg_vals()),
                14 => (Powf([2.0, 3.0, 4.0, -1.0, -2.0, 1.0, 0.0][(z >> 44) as usize % 7]), mul_vals(true)),
                _ => (Powf([0.5, 1.5, -0.5, -1.5, 2.5, 0.25][(z >> 44) as usize % 6]), mul_vals(false)),
            };
            Some(Case7::F(FwdCase { op, leaves: vec![LeafSpec { dims: d, vals, tracked: (z >> 21) & 1 == 1 }], force_exact: None, second_is_view_of_first: None }))
        }));
        // whole exponents beyond the range of 32-bit integers, bases at and next to +-1 (finite, ordinary results)
        let big_e: [f64; 8] = [2147483648.0, 2147483649.0, 4294967296.0, 8589934592.0, -2147483649.0, -4294967296.0, 1e10, 3e9];
        st.merge(ctx.run_indexed("powf-exponents-beyond-i32", big_e.len() as u64 * 2, None, |i| {
            let e = big_e[(i / 2) as usize];
            // only exponents the build's float type represents exactly
            if IS_F32 && (e as f32) as f64 != e {
                return None;
            }
            // 1 -+ 2^-33 and 1 -+ 2^-34 are exact in f64 (the f32 build keeps the bases at exactly +-1)
            let near = |s: f64, k: i32| if IS_F32 { s } else { s * (1.0 - 2f64.powi(-k)) };
            let vals = if i % 2 == 0 { vec![-1.0, 1.0, near(1.0, 33), near(-1.0, 33)] } else { vec![near(1.0, 34), -1.0, near(-1.0, 32), 1.0] };
            // the library and the reference call the same power function on the same arguments: compared bitwise
            // (the general tolerance scales with the exponent, the condition number of x^e, and would accept -1 for 1)
            Some(Case7::F(FwdCase { op: Powf(e), leaves: vec![LeafSpec { dims: vec![2, 2], vals, tracked: i % 4 == 1 }], force_exact: Some(true), second_is_view_of_first: None }))
        }));
        // more than 2^16 elements
        let big: Vec<(Vec<usize>, OpKind)> = vec![
            (vec![70001], Sum(1)),
            (vec![2, 35001], Sum(1)),
            (vec![35001, 2], Sum(1)),
            (vec![300, 300], Sum(2)),
            (vec![70001], Softmax),
            (vec![35001, 2], Softmax),
            (vec![2, 35001], Exp),
            (vec![70001], Sigmoid),
            (vec![66000], Relu),
            (vec![66000], Neg),
            (vec![66000], Powf(2.0)),
            (vec![300, 300], Reshape(vec![90000])),
            (vec![90000], Reshape(vec![300, 300])),
            (vec![2, 33000], Reshape(vec![33000, 2])),
            (vec![66000], ActSigmoid),
            (vec![33000, 2], ActSoftmax),
        ];
        st.merge(ctx.run_indexed("more-than-65536-elements", big.len() as u64 + 2, None, |i| {
            if i as usize >= big.len() {
                let n = 70001 + (i as usize - big.len()) * 30000;
                return Some(Case7::S(ScalarCase::SumAll(LeafSpec { dims: vec![n], vals: (0..n).map(|k| ((k * 13) % 257) as f64 - 128.0).collect(), tracked: false })));
            }
            let (d, op) = big[i as usize].clone();
            let n = numel(&d);
            let vals: Vec<f64> = if matches!(op, Sum(_) | Relu | Neg | Powf(_) | Reshape(_)) { (0..n).map(|k| ((k * 13 + k / 1009) % 257) as f64 - 128.0).collect() } else { (0..n).map(|k| ((k * 13 + k / 1009) % 257) as f64 / 64.0 - 2.0).collect() };
            Some(Case7::F(FwdCase { op, leaves: vec![LeafSpec { dims: d, vals, tracked: false }], force_exact: None, second_is_view_of_first: None }))
        }));
    }
    let (max_rank, max_size, total) = t.pick((4usize, 9usize, 160000u64), (5, 13, 600000));
    let nops = 6 + map_ops().len();
    let strat = move || (prop::collection::vec(1..=max_size, 1..=max_rank), 0..nops, any::<u8>(), -3.0f64..4.0, any::<u64>()).prop_map(|(dims, opi, p, e, vseed)| R7 { dims, opi, p, e: (e * 64.0).round() / 64.0, vseed }).boxed();
    st.merge(ctx.run_prop("random-shapes-and-values", total, strat, random_case));
    st
}

pub fn run(ctx: &Ctx) -> i32 {
    let mut st = ctx.run_replays(&dispatch);
    st.merge(campaigns(ctx));
    if ctx.tier == Tier::Thorough {
        st.merge(ctx.run_fuzz(30000, ctx.threads, &dispatch));
    }
    finish(
        ctx,
        st,
        "cases = one of sum(k), sum_all, reshape(target), neg, scale, powf(e), ln, exp, reciprocal, relu, sigmoid, softmax on one fresh array: all shapes of rank 1..4 / sizes 1..3 enumerated with every k and every target shape, larger shapes, random values and exponents sampled. Oracle: the reference definitions (dimensions and values), refusal <=> panic for reshape with a different element count or a zero dimension, and for softmax additionally the validity predicates (every element >= 0, every last-dimension row sums to 1 within 4*eps*(len+1)). Non-trivial = more than one element and (k>=1 with a summed extent > 1, or target shape != source shape, or a point-wise map); distinct by (operation+parameter, shape).",
        &[
            "sum/reshape/neg/scale/relu on integer data are compared bitwise; transcendental functions with |got-ref| <= rtol*(|ref|+magnitude)+atol, rtol 1e-9 (f64)",
            "in-domain values only: ln/reciprocal arguments in [0.25,4], exp/sigmoid/softmax arguments in [-3,3], powf bases in [0.25,4] unless the exponent is a positive integer",
        ],
        json!({}),
    )
}
