//! C06 Convolution equals the direct sliding-window definition.

use crate::gens::*;
use crate::opcase::*;
use crate::runner::*;
use crate::vals::*;
use proptest::prelude::*;
use refmodel::tensor::*;
use serde_json::{json, Value};

fn fwd(cfg: &ConvCfg) -> FwdCase {
    FwdCase { op: cfg.op(), leaves: cfg.leaves([false, false]), force_exact: None, second_is_view_of_first: None }
}

#[derive(Clone, Debug)]
struct ConvRecipe {
    batch: Vec<usize>,
    depth: usize,
    rows: usize,
    cols: usize,
    count: usize,
    fr: usize,
    fc: usize,
    sr: usize,
    sc: usize,
    vseed: u64,
}

fn random_case(r: &ConvRecipe) -> Option<FwdCase> {
    let fr = r.fr.min(r.rows);
    let fc = r.fc.min(r.cols);
    let mut image = r.batch.clone();
    image.extend([r.depth, r.rows, r.cols]);
    let filters = vec![r.count, r.depth, fr, fc];
    if numel(&image) > 5000 {
        return None;
    }
    Some(FwdCase {
        op: refmodel::ir::OpKind::Conv { sr: r.sr, sc: r.sc },
        leaves: vec![
            LeafSpec { dims: image.clone(), vals: gen_vals(r.vseed, numel(&image), VKind::Small), tracked: false },
            LeafSpec { dims: filters.clone(), vals: gen_vals(r.vseed ^ 5, numel(&filters), VKind::Small), tracked: false },
        ],
        force_exact: None,
        second_is_view_of_first: None,
    })
}

/// single calls and call sequences
#[derive(Clone, Debug, serde::Serialize, serde::Deserialize)]
pub enum Case6 {
    F(FwdCase),
    S(SeqCase),
}
impl CaseKind for Case6 {
    const KIND: &'static str = "c06";
    fn size(&self) -> usize {
        match self {
            Case6::F(c) => c.size(),
            Case6::S(c) => c.size(),
        }
    }
    fn sample(&self) -> Value {
        match self {
            Case6::F(c) => c.sample(),
            Case6::S(c) => c.sample(),
        }
    }
    fn run(&self) -> Outcome {
        match self {
            Case6::F(c) => c.run(),
            Case6::S(c) => c.run(),
        }
    }
}

pub fn dispatch(kind: &str, v: &Value) -> Option<Outcome> {
    match kind {
        "c06" => serde_json::from_value::<Case6>(v.clone()).ok().map(|c| c.run()),
        "forward-op-sequence" => serde_json::from_value::<SeqCase>(v.clone()).ok().map(|c| c.run()),
        "forward-op" => serde_json::from_value::<FwdCase>(v.clone()).ok().map(|c| c.run()),
        "forward-op-reuse-sequence" => serde_json::from_value::<ReuseSeqCase>(v.clone()).ok().map(|c| c.run()),
        _ => None,
    }
}

pub fn campaigns(ctx: &Ctx) -> Stats {
    let mut st = Stats::default();
    let t = ctx.tier;
    let cfgs = conv_cfgs(t.pick(4, 6), 3, 3, t.pick(&[1, 2][..], &[1, 2, 3][..]), t.pick(&[1, 2][..], &[1, 2, 3][..]), &[vec![], vec![1], vec![2], vec![3], vec![2, 2]]);
    st.merge(ctx.run_indexed(
        "small-configurations",
        cfgs.len() as u64,
        Some("images up to 4x4 (quick) / 6x6 (thorough), filters up to 3x3 (<= image), both strides 1..3 independently, depth and filter count 1..2 (quick) / 1..3 (thorough), batch absent/[1]/[2]/[3]/[2,2]; exact integer data"),
        |i| Some(fwd(&cfgs[i as usize])),
    ));
    st.merge(ctx.run_indexed("small-configurations-with-tracked-operands", cfgs.len() as u64, None, |i| {
        let cfg = &cfgs[i as usize];
        let sub = 1 + (i % 3);
        Some(FwdCase { op: cfg.op(), leaves: cfg.leaves([sub & 1 == 1, sub & 2 == 2]), force_exact: None, second_is_view_of_first: None })
    }));
    // ONE image (or a clone of it) convolved two or three times with filters of one size under DIFFERENT strides (often
    // giving the same output grid), and one filter bank over several images: a result must not depend on what the
    // same buffer was unrolled for before
    st.merge(ctx.run_indexed("reused-image-under-other-strides", ctx.tier.pick(100_000, 500_000), None, |i| {
        let z = mix(i ^ 0xC06A ^ ctx.seed.wrapping_mul(0x9E3779B1));
        let depth = 1 + (z % 2) as usize;
        let (ir, ic) = (2 + ((z >> 2) % 6) as usize, 2 + ((z >> 5) % 6) as usize);
        let (fr, fc) = (1 + ((z >> 8) % ir.min(3) as u64) as usize, 1 + ((z >> 11) % ic.min(3) as u64) as usize);
        let mut idims = vec![depth, ir, ic];
        if (z >> 14) & 1 == 1 {
            idims.insert(0, 2);
        }
        let count = 1 + ((z >> 15) % 2) as usize;
        let mut leaves = vec![LeafSpec { dims: idims.clone(), vals: gen_vals(z, numel(&idims), VKind::Int), tracked: (z >> 61) & 1 == 1 }];
        let mut calls = vec![];
        for c in 0..(2 + ((z >> 17) % 2) as usize) {
            let y = mix(z ^ (c as u64 + 21));
            let (sr, sc) = (1 + (y % 3) as usize, 1 + ((y >> 2) % 3) as usize);
            let fd = vec![count, depth, fr, fc];
            leaves.push(LeafSpec { dims: fd.clone(), vals: gen_vals(y, numel(&fd), VKind::Int), tracked: false });
            calls.push(ReuseCall { op: refmodel::ir::OpKind::Conv { sr, sc }, args: vec![ReuseArg { leaf: 0, view: None, via_clone: (y >> 5) & 1 == 1 }, ReuseArg { leaf: if (y >> 6) & 3 == 0 && c > 0 { 1 } else { c + 1 }, view: None, via_clone: false }] });
        }
        Some(ReuseSeqCase { leaves, calls })
    }));
    // the same shapes again and again with different values, each image dropped before the next is built
    st.merge(ctx.run_indexed("same-shape-different-values", 24, None, |i| {
        let cfg = &cfgs[(i as usize * 997) % cfgs.len()];
        let calls = (0..5u64)
            .map(|k| FwdCase { op: cfg.op(), leaves: vec![LeafSpec { dims: cfg.image.clone(), vals: gen_vals(i * 10 + k, numel(&cfg.image), VKind::Int), tracked: false }, LeafSpec { dims: cfg.filters.clone(), vals: gen_vals(i * 10 + k + 100, numel(&cfg.filters), VKind::Int), tracked: false }], force_exact: None, second_is_view_of_first: None })
            .collect();
        Some(Case6::S(SeqCase { calls }))
    }));
    st.merge(ctx.run_indexed("value-patterns", (N_PATTERNS * N_PATTERNS) as u64 * 3, None, |i| {
        let (pa, pb) = ((i % N_PATTERNS as u64) as usize, ((i / N_PATTERNS as u64) % N_PATTERNS as u64) as usize);
        let image: Vec<usize> = [vec![1, 2, 2], vec![2, 1, 2, 2], vec![2, 3, 4]][(i / (N_PATTERNS * N_PATTERNS) as u64) as usize].clone();
        let depth = image[image.len() - 3];
        let filters = vec![2, depth, if image[image.len() - 2] > 2 { 2 } else { 1 }, 1];
        Some(FwdCase { op: refmodel::ir::OpKind::Conv { sr: 1, sc: 1 }, leaves: vec![LeafSpec { dims: image.clone(), vals: pattern_vals(pa, numel(&image), i), tracked: false }, LeafSpec { dims: filters.clone(), vals: pattern_vals(pb, numel(&filters), i + 1), tracked: false }], force_exact: None, second_is_view_of_first: None })
    }));
    // output positions per image around typical block lengths (one row of n positions, and near-square layouts)
    {
        let nb = BOUNDARY_SIZES.len() as u64;
        st.merge(ctx.run_indexed("boundary-output-positions", nb * 4, None, |i| {
            let n = BOUNDARY_SIZES[(i % nb) as usize];
            let (image, filters, sr, sc): (Vec<usize>, Vec<usize>, usize, usize) = match i / nb {
                0 => (vec![1, 1, n], vec![2, 1, 1, 1], 1, 1),
                1 => (vec![2, 1, 2, n + 1], vec![1, 1, 2, 2], 1, 1),
                2 => (vec![1, n, 2], vec![3, 1, 1, 2], 1, 1),
                _ => (vec![1, 3, 2 * n], vec![1, 1, 3, 2], 1, 2),
            };
            Some(FwdCase { op: refmodel::ir::OpKind::Conv { sr, sc }, leaves: vec![LeafSpec { dims: image.clone(), vals: gen_vals(i, numel(&image), VKind::Int), tracked: false }, LeafSpec { dims: filters.clone(), vals: gen_vals(i + 1, numel(&filters), VKind::Int), tracked: false }], force_exact: None, second_is_view_of_first: None })
        }));
    }
    // sequences of calls in one thread: the same filter / output layout with growing, shrinking and absent batches
    {
        let seqs: Vec<Vec<Vec<usize>>> = vec![vec![vec![], vec![4]], vec![vec![2], vec![5]], vec![vec![3], vec![1], vec![2, 2]], vec![vec![1], vec![], vec![3]]];
        let layouts: [(usize, usize, usize, usize, usize, usize); 4] = [(1, 4, 4, 2, 2, 1), (2, 3, 5, 2, 1, 2), (1, 5, 5, 1, 3, 2), (2, 2, 6, 2, 2, 2)];
        st.merge(ctx.run_indexed("call-sequences", (seqs.len() * layouts.len() * 2) as u64, None, |i| {
            let s = &seqs[(i as usize) % seqs.len()];
            let (depth, rows, cols, count, f, stride) = layouts[(i as usize / seqs.len()) % layouts.len()];
            let second_layer = i as usize / seqs.len() / layouts.len() == 1;
            let calls = s
                .iter()
                .enumerate()
                .map(|(k, b)| {
                    let mut image = b.clone();
                    image.extend([depth, rows, cols]);
                    // an unrelated layer with the same output layout in between
                    let cnt = if second_layer && k == 1 { count } else { count };
                    let filters = vec![cnt, depth, f, f.min(cols)];
                    FwdCase { op: refmodel::ir::OpKind::Conv { sr: stride, sc: stride }, leaves: vec![LeafSpec { dims: image.clone(), vals: gen_vals(i + k as u64, numel(&image), VKind::Int), tracked: second_layer }, LeafSpec { dims: filters.clone(), vals: gen_vals(i + 7 + k as u64, numel(&filters), VKind::Int), tracked: false }], force_exact: None, second_is_view_of_first: None }
                })
                .collect();
            Some(Case6::S(SeqCase { calls }))
        }));
    }
    // the filters are a reshaped VIEW of the image (shared storage), spanning the whole image or not
    {
        let pairs: Vec<(Vec<usize>, Vec<usize>)> = vec![
            (vec![1, 3, 3], vec![1, 1, 3, 3]),
            (vec![2, 2, 2], vec![1, 2, 2, 2]),
            (vec![2, 2, 2, 2], vec![2, 2, 2, 2]),
            (vec![3, 1, 2, 2], vec![3, 1, 2, 2]),
            (vec![2, 1, 4, 2], vec![4, 1, 2, 2]),
            (vec![1, 4, 4], vec![4, 1, 2, 2]),
            (vec![2, 3, 2], vec![3, 2, 1, 2]),
        ];
        st.merge(ctx.run_indexed("filters-are-a-view-of-the-image", pairs.len() as u64 * 2, None, |i| {
            let (image, filters) = pairs[(i / 2) as usize].clone();
            let vals: Vec<f64> = (0..numel(&image)).map(|k| ((k * 3 + 1) % 11) as f64 - 4.0).collect();
            Some(Case6::F(FwdCase { op: refmodel::ir::OpKind::Conv { sr: 1, sc: 1 }, leaves: vec![LeafSpec { dims: image.clone(), vals: vals.clone(), tracked: i % 2 == 1 }, LeafSpec { dims: filters.clone(), vals, tracked: false }], force_exact: None, second_is_view_of_first: Some(filters) }))
        }));
    }
    // image and filter values of very different magnitudes (against each other, and element by element)
    {
        let shapes: Vec<(Vec<usize>, Vec<usize>, usize, usize)> = vec![
            (vec![1, 3, 3], vec![2, 1, 2, 2], 1, 1),
            (vec![2, 2, 4, 3], vec![1, 2, 2, 3], 1, 1),
            (vec![3, 2, 5], vec![2, 3, 1, 2], 1, 2),
            (vec![1, 6, 6], vec![3, 1, 3, 3], 2, 1),
            (vec![2, 4, 4], vec![2, 2, 4, 4], 1, 1),
        ];
        let ns = shapes.len() as u64;
        let (_, mul, jit) = wide_exps();
        st.merge(ctx.run_indexed("wide-magnitudes", ns * t.pick(3000, 40000), None, |i| {
            let (image, filters, sr, sc) = shapes[(i % ns) as usize].clone();
            let z = mix(i ^ 0xC06 ^ ctx.seed.wrapping_mul(0x9E3779B1));
            let bi = pick_base(z as u8, mul);
            let bf = match (z >> 8) % 3 {
                0 => -bi,
                1 => 0,
                _ => pick_base((z >> 16) as u8, mul),
            };
            let (ji, jf) = (if (z >> 24) & 1 == 0 { 0 } else { jit }, if (z >> 25) & 1 == 0 { 0 } else { jit });
            Some(Case6::F(FwdCase {
                op: refmodel::ir::OpKind::Conv { sr, sc },
                leaves: vec![LeafSpec { dims: image.clone(), vals: wide_vals(z, numel(&image), bi, ji, true), tracked: (z >> 26) & 1 == 1 }, LeafSpec { dims: filters.clone(), vals: wide_vals(z ^ 3, numel(&filters), bf, jf, true), tracked: false }],
                force_exact: None,
                second_is_view_of_first: None,
            }))
        }));
    }
    // images whose element offsets exceed 2^16 (and 2^17): offsets kept in narrow integer types wrap silently
    {
        let big: Vec<(Vec<usize>, Vec<usize>, usize, usize)> = vec![
            (vec![2, 260, 260], vec![1, 2, 2, 2], 1, 1),
            (vec![5, 128, 128], vec![2, 5, 3, 3], 2, 2),
            (vec![1, 300, 300], vec![1, 1, 2, 3], 2, 1),
            (vec![3, 1, 70000], vec![1, 3, 1, 2], 1, 1),
            (vec![2, 2, 190, 190], vec![1, 2, 2, 2], 3, 3),
            (vec![1, 70000, 1], vec![2, 1, 3, 1], 2, 1),
            (vec![40, 60, 60], vec![1, 40, 2, 2], 4, 4),
        ];
        st.merge(ctx.run_indexed("image-offsets-beyond-65536", big.len() as u64, None, |i| {
            let (image, filters, sr, sc) = big[i as usize].clone();
            // position-dependent exact data: a wrong read is visible
            let iv: Vec<f64> = (0..numel(&image)).map(|k| ((k * 31 + k / 977) % 509) as f64 - 250.0).collect();
            let fv: Vec<f64> = (0..numel(&filters)).map(|k| ((k * 7) % 23) as f64 - 11.0).collect();
            Some(Case6::F(FwdCase { op: refmodel::ir::OpKind::Conv { sr, sc }, leaves: vec![LeafSpec { dims: image, vals: iv, tracked: false }, LeafSpec { dims: filters, vals: fv, tracked: false }], force_exact: None, second_is_view_of_first: None }))
        }));
    }
    let total = t.pick(60000u64, 300000);
    let mxi = t.pick(10usize, 14);
    let strat = move || {
        (prop::collection::vec(1..=3usize, 0..=2), 1..=3usize, 1..=mxi, 1..=mxi, 1..=4usize, 1..=4usize, 1..=4usize, 1..=4usize, 1..=4usize, any::<u64>())
            .prop_map(|(batch, depth, rows, cols, count, fr, fc, sr, sc, vseed)| ConvRecipe { batch, depth, rows, cols, count, fr, fc, sr, sc, vseed })
            .boxed()
    };
    st.merge(ctx.run_prop("random-sizes-and-values", total, strat, random_case));
    st
}

pub fn run(ctx: &Ctx) -> i32 {
    let mut st = ctx.run_replays(&dispatch);
    st.merge(campaigns(ctx));
    if ctx.tier == Tier::Thorough {
        st.merge(ctx.run_fuzz(20000, ctx.threads, &dispatch));
    }
    finish(
        ctx,
        st,
        "cases = image.conv(filters, (sr, sc)) on fresh untracked leaves over batch shape, depth, image size, filter count and size, and both stride components; small configurations enumerated, larger ones sampled. Oracle: the six-loop sliding-window definition, including the output dimensions [batch..., count, (rows-frows)/sr+1, (cols-fcols)/sc+1]. Non-trivial = more than one window and depth*frows*fcols > 1; distinct by (image shape, filter shape, strides).",
        &["integer / dyadic data, exact: compared bitwise", "filters larger than the image, zero strides and depth mismatches are outside the property's domain and are not generated"],
        json!({}),
    )
}
