//! C08 Arrays are immutable: no operation changes an existing array's values or shape.

use crate::c01::recipe_strategy;
use crate::histcase::*;
use crate::runner::*;
use refmodel::elab::*;
use serde_json::{json, Value};

pub fn cfg_for(t: Tier, exact: bool) -> GenCfg {
    use Kind::*;
    let mut cfg = GenCfg::programs(exact);
    cfg.kinds = vec![(Binary, 22), (Backward, 14), (Unary, 10), (ReadGrad, 9), (Update, 9), (CloneH, 8), (Leaf, 7), (SumReshape, 8), (Matmul, 5), (Rebind, 4), (DropH, 4), (ClearGrad, 3), (Custom, 3), (Flag, 3), (Conv, 2), (IfGt, 2)];
    cfg.max_steps = t.pick(25, 120);
    cfg.max_elems = t.pick(32, 100);
    cfg.flag_results = true;
    cfg
}

pub fn dispatch(kind: &str, v: &Value) -> Option<Outcome> {
    match kind {
        "history" => serde_json::from_value::<HistCase>(v.clone()).ok().map(|c| c.run()),
        _ => None,
    }
}

pub fn run(ctx: &Ctx) -> i32 {
    let mut st = ctx.run_replays(&dispatch);
    let t = ctx.tier;
    let (len, total) = t.pick((22usize, 40000u64), (100, 600000));
    for (name, exact) in [("histories-exact", true), ("histories-mixed", false)] {
        let cfg = cfg_for(t, exact);
        st.merge(ctx.run_prop(name, total / 2, move || recipe_strategy(len), move |r| Some(HistCase { oracle: "c08".into(), hist: elaborate(&cfg, r) })));
    }
    if ctx.tier == Tier::Thorough {
        st.merge(ctx.run_fuzz(20000, ctx.threads, &dispatch));
    }
    finish(
        ctx,
        st,
        "cases = histories of up to 25 (quick) / 120 (thorough) steps over a pool of live handles: forward operations (incl. reshape views and sum(0) aliases), clones, backward passes with and without seeds, gradient reads (the fetched gradient stays in the pool while later passes accumulate on top of it), clears, GradientDescent updates over parameter lists in which some parameters hold no gradient and older clones stay alive, re-binding, drops. Invariant after EVERY step: for every live handle, dimensions and the bit patterns of all values equal the snapshot taken when the handle was created; after an update the parameter's handle holds a new array (fresh snapshot) and every older clone is unchanged. Non-trivial = the history contains at least one pass and at least one snapshot comparison; distinct by history structure.",
        &["the source audit mentioned in the property (no unsafe, no interior mutability around values) is static analysis and not part of this verdict", "the reference model is used for typing only; the oracle compares corgi with its own earlier snapshots"],
        json!({}),
    )
}
