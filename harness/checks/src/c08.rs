//! C08 Arrays are immutable: no operation changes an existing array's values or shape.

use crate::c01::recipe_strategy;
use crate::histcase::*;
use crate::runner::*;
use refmodel::elab::*;
use serde_json::{json, Value};

pub fn cfg_for(t: Tier, exact: bool) -> GenCfg {
    use Kind::*;
    let mut cfg = GenCfg::programs(exact);
    cfg.kinds = vec![(Binary, 22), (Backward, 14), (Unary, 10), (ReadGrad, 9), (Update, 9), (CloneH, 8), (Leaf, 7), (SumReshape, 8), (Matmul, 5), (Rebind, 4), (DropH, 4), (ClearGrad, 3), (Custom, 3), (Flag, 3), (Conv, 2), (IfGt, 2), (Retrack, 4)];
    cfg.max_steps = t.pick(25, 120);
    cfg.max_elems = t.pick(32, 100);
    cfg.flag_results = true;
    cfg
}

/// A training loop through `Model` with a USER-DEFINED optimizer that steps only some parameters and leaves the
/// others (and their gradients) alone, while the caller keeps handles on inputs, outputs, old parameter arrays and
/// fetched gradients: none of them may ever change.
#[derive(Clone, Debug, serde::Serialize, serde::Deserialize)]
pub struct LoopCase8 {
    pub input: usize,
    pub hidden: usize,
    pub output: usize,
    pub batch: usize,
    pub iterations: usize,
    /// parameters with index % 2 == skip are left untouched by the optimizer
    pub skip: usize,
    pub vseed: u64,
}

struct PartialStep {
    lr: corgi::numbers::Float,
    skip: usize,
}
impl corgi::optimizer::Optimizer for PartialStep {
    fn update(&self, parameters: Vec<&mut corgi::array::Array>) {
        for (i, p) in parameters.into_iter().enumerate() {
            if i % 2 == self.skip {
                continue;
            }
            if let Some(g) = p.replace_gradient() {
                let vals: Vec<corgi::numbers::Float> = p.values().iter().zip(g.values()).map(|(x, g)| x - self.lr * g).collect();
                *p = corgi::array::Array::from((p.dimensions().to_vec(), vals)).tracked();
            }
        }
    }
}

impl CaseKind for LoopCase8 {
    const KIND: &'static str = "c08-loop";
    fn size(&self) -> usize {
        self.iterations * 10 + self.batch + self.hidden
    }
    fn run(&self) -> Outcome {
        use crate::exec::*;
        use crate::layers::*;
        use crate::vals::*;
        use corgi::array::Array;
        use refmodel::ops::Act;
        let mut k = KeyHasher::new("c08-loop");
        k.u(self.input as u64).u(self.hidden as u64).u(self.output as u64).u(self.batch as u64).u(self.iterations as u64).u(self.skip as u64);
        let classes = vec!["kind:training-loop-with-user-optimizer".to_string()];
        let res = guarded(|| -> Result<usize, String> {
            let specs = vec![LayerSpec::Dense { input: self.input, output: self.hidden, act: Act::Sigmoid }, LayerSpec::Dense { input: self.hidden, output: self.output, act: Act::None }];
            let acts = acts_for(&specs);
            let mut layers = build_layers(&specs, &acts, self.vseed, VKind::Small, None);
            // handles on the parameter arrays (same arrays: gradients are visible through them)
            let mut held: Vec<(String, Array, Vec<usize>, Vec<u64>)> = vec![];
            let snap = |a: &Array| (a.dimensions().to_vec(), a.values().iter().map(|v| (*v as f64).to_bits()).collect::<Vec<u64>>());
            let pcs: Vec<Array> = layers.iter_mut().flat_map(|l| l.parameters().into_iter().map(|p| p.clone()).collect::<Vec<_>>()).collect();
            for (i, p) in pcs.iter().enumerate() {
                let (d, b) = snap(p);
                held.push((format!("initial parameter {}", i), p.clone(), d, b));
            }
            let opt = PartialStep { lr: 0.25, skip: self.skip % 2 };
            let cost = corgi::cost::mse();
            let refs: Vec<&mut dyn corgi::layer::Layer> = layers.iter_mut().map(|b| &mut **b as &mut dyn corgi::layer::Layer).collect();
            let mut model = corgi::model::Model::new(refs, &opt, &cost);
            let xd = if self.batch == 0 { vec![self.input] } else { vec![self.batch, self.input] };
            let mut compared = 0;
            let check = |held: &Vec<(String, Array, Vec<usize>, Vec<u64>)>, when: &str| -> Result<usize, String> {
                for (name, a, d, b) in held {
                    let (nd, nb) = (a.dimensions().to_vec(), a.values().iter().map(|v| (*v as f64).to_bits()).collect::<Vec<u64>>());
                    if &nd != d || &nb != b {
                        return Err(format!("MUTATED: {} changed {}: values {:?} -> {:?}", name, when, b.iter().take(6).map(|x| f64::from_bits(*x)).collect::<Vec<_>>(), nb.iter().take(6).map(|x| f64::from_bits(*x)).collect::<Vec<_>>()));
                    }
                }
                Ok(held.len())
            };
            for it in 0..self.iterations {
                let x = arr(&xd, &gen_vals(self.vseed + it as u64, xd.iter().product(), VKind::Small));
                let out = model.forward(x.clone());
                let t = arr(out.dimensions(), &gen_vals(self.vseed ^ (it as u64 + 31), out.values().len(), VKind::Small));
                let (d, b) = snap(&x);
                held.push((format!("input of iteration {}", it), x, d, b));
                let (d, b) = snap(&out);
                held.push((format!("output of iteration {}", it), out, d, b));
                compared += check(&held, &format!("during the forward pass of iteration {}", it))?;
                model.backward(t.clone());
                let (d, b) = snap(&t);
                held.push((format!("target of iteration {}", it), t, d, b));
                // fetch the gradients the pass left on the (still current) initial parameter arrays
                for (i, p) in pcs.iter().enumerate() {
                    if let Some(g) = p.gradient().as_ref() {
                        let (d, b) = snap(g);
                        held.push((format!("gradient of parameter {} fetched in iteration {}", i, it), g.clone(), d, b));
                    }
                }
                compared += check(&held, &format!("during the backward pass of iteration {}", it))?;
                model.update();
                compared += check(&held, &format!("during Model::update of iteration {}", it))?;
            }
            Ok(compared)
        });
        match res {
            Ok(Ok(n)) => Outcome::pass(n > 0 && self.iterations >= 2, k.finish(), classes),
            Ok(Err(m)) if m.starts_with("MUTATED") => Outcome::fail("mutated", "mutated:training-loop".into(), format!("{} ({:?})", m, self), k.finish(), classes),
            Ok(Err(m)) => Outcome::internal(m),
            Err(p) => Outcome::discard(&format!("the loop panicked: {}", p)),
        }
    }
}

pub fn dispatch(kind: &str, v: &Value) -> Option<Outcome> {
    match kind {
        "c08-loop" => serde_json::from_value::<LoopCase8>(v.clone()).ok().map(|c| c.run()),
        "history" => serde_json::from_value::<HistCase>(v.clone()).ok().map(|c| c.run()),
        _ => None,
    }
}

pub fn run(ctx: &Ctx) -> i32 {
    let mut st = ctx.run_replays(&dispatch);
    let t = ctx.tier;
    let (len, total) = t.pick((22usize, 60000u64), (100, 600000));
    for (name, exact) in [("histories-exact", true), ("histories-mixed", false)] {
        let cfg = cfg_for(t, exact);
        st.merge(ctx.run_prop(name, total / 2, move || recipe_strategy(len), move |r| Some(HistCase { oracle: "c08".into(), hist: elaborate(&cfg, r) })));
    }
    for (name, p) in [("programs-with-large-dimensions", Profile::LargeDims), ("programs-with-wide-magnitudes", Profile::WideMagnitudes)] {
        let cfg = cfg_for(t, false).with_profile(p, t == Tier::Thorough, crate::exec::IS_F32);
        st.merge(ctx.run_prop(name, profile_total(t, p), move || recipe_strategy(len), move |r| Some(HistCase { oracle: "c08".into(), hist: elaborate(&cfg, r) })));
    }
    st.merge(ctx.run_indexed("training-loops-with-user-optimizer", 3 * 3 * 4 * 2, None, |i| {
        Some(LoopCase8 { input: 1 + (i % 3) as usize, hidden: 2 + ((i / 3) % 3) as usize, output: 1 + (i % 2) as usize, batch: ((i / 9) % 4) as usize, iterations: 3, skip: (i / 36) as usize, vseed: i * 77 + ctx.seed })
    }));
    if ctx.tier == Tier::Thorough {
        st.merge(ctx.run_fuzz(20000, ctx.threads, &dispatch));
    }
    finish(
        ctx,
        st,
        "cases = histories of up to 25 (quick) / 120 (thorough) steps over a pool of live handles: forward operations (incl. reshape views and sum(0) aliases), clones, backward passes with and without seeds, gradient reads (the fetched gradient stays in the pool while later passes accumulate on top of it), clears, GradientDescent updates over parameter lists in which some parameters hold no gradient and older clones stay alive, re-binding, drops. Invariant after EVERY step: for every live handle, dimensions and the bit patterns of all values equal the snapshot taken when the handle was created; after an update the parameter's handle holds a new array (fresh snapshot) and every older clone is unchanged. Non-trivial = the history contains at least one pass and at least one snapshot comparison; distinct by history structure.",
        &["the source audit mentioned in the property (no unsafe, no interior mutability around values) is static analysis and not part of this verdict", "the reference model is used for typing only; the oracle compares corgi with its own earlier snapshots"],
        json!({}),
    )
}
