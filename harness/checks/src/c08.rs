//! C08 Arrays are immutable: no operation changes an existing array's values or shape.

use crate::c01::recipe_strategy;
use crate::histcase::*;
use crate::runner::*;
use refmodel::elab::*;
use serde_json::{json, Value};

pub fn cfg_for(t: Tier, exact: bool) -> GenCfg {
    use Kind::*;
    let mut cfg = GenCfg::programs(exact);
    cfg.kinds = vec![(Binary, 22), (Backward, 14), (Unary, 10), (ReadGrad, 9), (Update, 9), (CloneH, 8), (Leaf, 7), (SumReshape, 8), (Matmul, 5), (Rebind, 4), (DropH, 4), (ClearGrad, 3), (Custom, 3), (Flag, 3), (Conv, 2), (IfGt, 2), (Retrack, 4), (Refused, 2)];
    cfg.max_steps = t.pick(25, 120);
    cfg.max_elems = t.pick(32, 100);
    cfg.flag_results = true;
    cfg
}

/// A training loop through `Model` with a USER-DEFINED optimizer that steps only some parameters and leaves the
/// others (and their gradients) alone, while the caller keeps handles on inputs, outputs, old parameter arrays and
/// fetched gradients: none of them may ever change.
#[derive(Clone, Debug, serde::Serialize, serde::Deserialize)]
pub struct LoopCase8 {
    pub input: usize,
    pub hidden: usize,
    pub output: usize,
    pub batch: usize,
    pub iterations: usize,
    /// parameters with index % 2 == skip are left untouched by the optimizer
    pub skip: usize,
    pub vseed: u64,
    /// activation of the last layer: 0 none, 1 sigmoid, 2 softmax
    #[serde(default)]
    pub last_act: u8,
    /// cross-entropy instead of mse (needs a sigmoid / softmax last layer)
    #[serde(default)]
    pub cross_entropy: bool,
    /// inputs are multiplied by this (0 = 1): saturated outputs, probabilities far below 1e-12
    #[serde(default)]
    pub input_scale: f64,
}

struct PartialStep {
    lr: corgi::numbers::Float,
    skip: usize,
}
impl corgi::optimizer::Optimizer for PartialStep {
    fn update(&self, parameters: Vec<&mut corgi::array::Array>) {
        for (i, p) in parameters.into_iter().enumerate() {
            if i % 2 == self.skip {
                continue;
            }
            if let Some(g) = p.replace_gradient() {
                let vals: Vec<corgi::numbers::Float> = p.values().iter().zip(g.values()).map(|(x, g)| x - self.lr * g).collect();
                *p = corgi::array::Array::from((p.dimensions().to_vec(), vals)).tracked();
            }
        }
    }
}

impl CaseKind for LoopCase8 {
    const KIND: &'static str = "c08-loop";
    fn size(&self) -> usize {
        self.iterations * 10 + self.batch + self.hidden
    }
    fn run(&self) -> Outcome {
        use crate::exec::*;
        use crate::layers::*;
        use crate::vals::*;
        use corgi::array::Array;
        use refmodel::ops::Act;
        let mut k = KeyHasher::new("c08-loop");
        k.u(self.input as u64).u(self.hidden as u64).u(self.output as u64).u(self.batch as u64).u(self.iterations as u64).u(self.skip as u64).u(self.last_act as u64).b(self.cross_entropy).u(self.input_scale as u64);
        let classes = vec!["kind:training-loop-with-user-optimizer".to_string()];
        let res = guarded(|| -> Result<usize, String> {
            let last = [Act::None, Act::Sigmoid, Act::Softmax][self.last_act as usize % 3];
            let ce = self.cross_entropy && last != Act::None;
            let scale = if self.input_scale == 0.0 { 1.0 } else { self.input_scale };
            let specs = vec![LayerSpec::Dense { input: self.input, output: self.hidden, act: if scale == 1.0 { Act::Sigmoid } else { Act::None } }, LayerSpec::Dense { input: self.hidden, output: self.output, act: last }];
            let acts = acts_for(&specs);
            let mut layers = build_layers(&specs, &acts, self.vseed, VKind::Small, None);
            // handles on the parameter arrays (same arrays: gradients are visible through them)
            let mut held: Vec<(String, Array, Vec<usize>, Vec<u64>)> = vec![];
            let snap = |a: &Array| (a.dimensions().to_vec(), a.values().iter().map(|v| (*v as f64).to_bits()).collect::<Vec<u64>>());
            let pcs: Vec<Array> = layers.iter_mut().flat_map(|l| l.parameters().into_iter().map(|p| p.clone()).collect::<Vec<_>>()).collect();
            for (i, p) in pcs.iter().enumerate() {
                let (d, b) = snap(p);
                held.push((format!("initial parameter {}", i), p.clone(), d, b));
            }
            let opt = PartialStep { lr: 0.25, skip: self.skip % 2 };
            let cost = if ce { corgi::cost::cross_entropy() } else { corgi::cost::mse() };
            let refs: Vec<&mut dyn corgi::layer::Layer> = layers.iter_mut().map(|b| &mut **b as &mut dyn corgi::layer::Layer).collect();
            let mut model = corgi::model::Model::new(refs, &opt, &cost);
            let xd = if self.batch == 0 { vec![self.input] } else { vec![self.batch, self.input] };
            let mut compared = 0;
            let check = |held: &Vec<(String, Array, Vec<usize>, Vec<u64>)>, when: &str| -> Result<usize, String> {
                for (name, a, d, b) in held {
                    let (nd, nb) = (a.dimensions().to_vec(), a.values().iter().map(|v| (*v as f64).to_bits()).collect::<Vec<u64>>());
                    if &nd != d || &nb != b {
                        return Err(format!("MUTATED: {} changed {}: values {:?} -> {:?}", name, when, b.iter().take(6).map(|x| f64::from_bits(*x)).collect::<Vec<_>>(), nb.iter().take(6).map(|x| f64::from_bits(*x)).collect::<Vec<_>>()));
                    }
                }
                Ok(held.len())
            };
            for it in 0..self.iterations {
                let x = arr(&xd, &gen_vals(self.vseed + it as u64, xd.iter().product(), VKind::Real).into_iter().map(|v| v * scale).collect::<Vec<f64>>());
                let out = model.forward(x.clone());
                let t = arr(out.dimensions(), &gen_vals(self.vseed ^ (it as u64 + 31), out.values().len(), if ce { VKind::PosReal } else { VKind::Real }));
                let (d, b) = snap(&x);
                held.push((format!("input of iteration {}", it), x, d, b));
                let (d, b) = snap(&out);
                held.push((format!("output of iteration {}", it), out, d, b));
                compared += check(&held, &format!("during the forward pass of iteration {}", it))?;
                model.backward(t.clone());
                let (d, b) = snap(&t);
                held.push((format!("target of iteration {}", it), t, d, b));
                // fetch the gradients the pass left on the (still current) initial parameter arrays
                for (i, p) in pcs.iter().enumerate() {
                    if let Some(g) = p.gradient().as_ref() {
                        let (d, b) = snap(g);
                        held.push((format!("gradient of parameter {} fetched in iteration {}", i, it), g.clone(), d, b));
                    }
                }
                compared += check(&held, &format!("during the backward pass of iteration {}", it))?;
                model.update();
                compared += check(&held, &format!("during Model::update of iteration {}", it))?;
            }
            Ok(compared)
        });
        match res {
            Ok(Ok(n)) => Outcome::pass(n > 0 && self.iterations >= 2, k.finish(), classes),
            Ok(Err(m)) if m.starts_with("MUTATED") => Outcome::fail("mutated", "mutated:training-loop".into(), format!("{} ({:?})", m, self), k.finish(), classes),
            Ok(Err(m)) => Outcome::internal(m),
            Err(p) => Outcome::discard(&format!("the loop panicked: {}", p)),
        }
    }
}

/// the operations whose operands are watched by `ArgCase8`
fn arg_ops() -> Vec<refmodel::ir::OpKind> {
    use refmodel::ir::OpKind::*;
    vec![Add, Sub, Mul, Div, Axpy(1.5), Neg, ScaleR(0.3), Powf(2.0), Powf(0.5), Ln, Exp, Recip, Sum(1), Reshape(vec![0]), Relu, Sigmoid, Softmax, ActRelu, ActSigmoid, ActSoftmax, Matmul { ta: false, tb: true, has_c: true }, Conv { sr: 1, sc: 1 }]
}

#[derive(Clone, Debug, serde::Serialize, serde::Deserialize)]
pub enum ArgTarget {
    Op(refmodel::ir::OpKind),
    Cost { cross_entropy: bool },
}

/// One call of an operation / activation closure / cost closure on arrays of arbitrary (full-mantissa, widely
/// spread) values, optionally followed by a backward pass: every operand, a clone of it and a reshaped view of it
/// must hold the same bit patterns afterwards.
#[derive(Clone, Debug, serde::Serialize, serde::Deserialize)]
pub struct ArgCase8 {
    pub target: ArgTarget,
    pub vseed: u64,
    pub tracked: bool,
    pub backward: bool,
}

impl CaseKind for ArgCase8 {
    const KIND: &'static str = "c08-args";
    fn size(&self) -> usize {
        8
    }
    fn sample(&self) -> Value {
        json!({"single-call": format!("{:?}", self.target), "tracked": self.tracked, "backward": self.backward})
    }
    fn run(&self) -> Outcome {
        use crate::exec::*;
        use crate::vals::*;
        use corgi::array::Array;
        use corgi::numbers::Float;
        use refmodel::ir::OpKind::*;
        let mut k = KeyHasher::new("c08-args");
        k.s(&format!("{:?}", self.target)).b(self.tracked).b(self.backward).u(self.vseed % 4);
        let classes = vec!["kind:single-call".to_string()];
        let z = self.vseed;
        // value styles: ordinary reals; arguments up to the largest that keeps exp finite; tiny magnitudes
        // (probabilities far below 1e-12); magnitudes spread element by element
        let arg_max = if IS_F32 { 80.0 } else { 700.0 };
        let style = z % 4;
        let vals = |salt: u64, n: usize, positive: bool, bounded: bool| -> Vec<f64> {
            let clampv = |v: Vec<f64>| v.into_iter().map(|x: f64| x.clamp(-arg_max, arg_max)).collect::<Vec<f64>>();
            match style {
                0 => gen_vals(z ^ salt, n, if positive { VKind::PosReal } else { VKind::Real }),
                1 => clampv(wide_vals(z ^ salt, n, 5, 4, !positive)),
                _ if bounded => clampv(wide_vals(z ^ salt, n, 3, 7, !positive)),
                2 => wide_vals(z ^ salt, n, if IS_F32 { -20 } else { -200 }, if IS_F32 { 10 } else { 150 }, !positive),
                _ => wide_vals(z ^ salt, n, 0, if IS_F32 { 8 } else { 40 }, !positive),
            }
        };
        type Snap = (Vec<usize>, Vec<u64>);
        let snap = |a: &Array| -> Snap { (a.dimensions().to_vec(), a.values().iter().map(|v| (*v as f64).to_bits()).collect::<Vec<u64>>()) };
        let res = guarded(|| -> Result<usize, String> {
            let mk = |d: &[usize], v: Vec<f64>| {
                let a = arr(d, &v);
                if self.tracked {
                    a.tracked()
                } else {
                    a
                }
            };
            // operands first, then everything that watches them: a clone and a reshaped view of each
            let (name, operands): (String, Vec<Array>) = match &self.target {
                ArgTarget::Cost { cross_entropy } => {
                    let d = [vec![2, 3], vec![4], vec![2, 1, 2]][(z >> 8) as usize % 3].clone();
                    let n: usize = d.iter().product();
                    (if *cross_entropy { "cost::cross_entropy".into() } else { "cost::mse".into() }, vec![mk(&d, vals(1, n, true, false)), arr(&d, &gen_vals(z ^ 2, n, VKind::PosReal))])
                }
                ArgTarget::Op(op) => {
                    let positive = matches!(op, Ln | Powf(_));
                    let bounded = matches!(op, Exp | Sigmoid | Softmax | ActSigmoid | ActSoftmax);
                    let shapes: Vec<Vec<usize>> = match op {
                        Add | Sub | Mul | Div | Axpy(_) => vec![vec![2, 3], vec![3]],
                        Matmul { .. } => vec![vec![2, 3], vec![2, 3], vec![2]],
                        Conv { .. } => vec![vec![1, 3, 3], vec![2, 1, 2, 2]],
                        _ => vec![[vec![2, 3], vec![5], vec![2, 1, 3]][(z >> 8) as usize % 3].clone()],
                    };
                    (op.name().to_string(), shapes.iter().enumerate().map(|(i, d)| mk(d, vals(i as u64 + 1, d.iter().product(), positive, bounded))).collect())
                }
            };
            let mut watched: Vec<(String, Array, Snap)> = vec![];
            for (i, o) in operands.iter().enumerate() {
                let n = o.values().len();
                watched.push((format!("operand {}", i), o.clone(), snap(o)));
                let view = o.reshape(vec![n]);
                let sv = snap(&view);
                watched.push((format!("a reshaped view of operand {}", i), view, sv));
            }
            let result: Array = match &self.target {
                ArgTarget::Cost { cross_entropy } => {
                    let f = if *cross_entropy { corgi::cost::cross_entropy() } else { corgi::cost::mse() };
                    f(&operands[0], &operands[1])
                }
                ArgTarget::Op(op) => {
                    let a = &operands[0];
                    match op {
                        Add => a + &operands[1],
                        Sub => a - &operands[1],
                        Mul => a * &operands[1],
                        Div => a / &operands[1],
                        Axpy(kk) => Array::axpy(*kk as Float, a, &operands[1]),
                        Matmul { .. } => Array::matmul((a, false), (&operands[1], true), Some(&operands[2])),
                        Conv { .. } => a.conv(&operands[1], (1, 1)),
                        Neg => -a,
                        ScaleR(kk) => a * (*kk as Float),
                        Powf(e) => a.powf(*e as Float),
                        Ln => a.ln(),
                        Exp => a.exp(),
                        Recip => a.reciprocal(),
                        Sum(kk) => a.sum(*kk),
                        Reshape(_) => a.reshape(vec![a.values().len()]),
                        Relu => a.relu(),
                        Sigmoid => a.sigmoid(),
                        Softmax => a.softmax(),
                        ActRelu => (corgi::activation::relu())(a.clone()),
                        ActSigmoid => (corgi::activation::sigmoid())(a.clone()),
                        ActSoftmax => (corgi::activation::softmax())(a.clone()),
                        _ => return Err("unsupported operation".into()),
                    }
                }
            };
            let sr = snap(&result);
            let compare = |when: &str, watched: &Vec<(String, Array, Snap)>| -> Result<(), String> {
                for (what, a, s0) in watched {
                    let s1 = snap(a);
                    if &s1 != s0 {
                        let first = s0.1.iter().zip(&s1.1).position(|(x, y)| x != y).unwrap_or(0);
                        return Err(format!("MUTATED: {} of {} changed {}: element {} was {:?}, is {:?} (dims {:?} -> {:?})", what, name, when, first, s0.1.get(first).map(|b| f64::from_bits(*b)), s1.1.get(first).map(|b| f64::from_bits(*b)), s0.0, s1.0));
                    }
                }
                Ok(())
            };
            compare("during the call", &watched)?;
            if self.backward && self.tracked {
                result.backward(None);
                watched.push(("the result".into(), result.clone(), sr));
                compare("during the backward pass", &watched)?;
            }
            Ok(watched.len())
        });
        let label = match &self.target {
            ArgTarget::Cost { cross_entropy } => (if *cross_entropy { "cross_entropy" } else { "mse" }).to_string(),
            ArgTarget::Op(op) => op.name().to_string(),
        };
        match res {
            Ok(Ok(n)) => Outcome::pass(n > 0, k.finish(), classes),
            Ok(Err(m)) if m.starts_with("MUTATED") => Outcome::fail("mutated", format!("mutated:single-call:{}", label), format!("{} ({:?})", m, self), k.finish(), classes),
            Ok(Err(m)) => Outcome::discard(&m),
            Err(p) => Outcome::discard(&format!("the call panicked: {}", p)),
        }
    }
}

pub fn dispatch(kind: &str, v: &Value) -> Option<Outcome> {
    match kind {
        "c08-loop" => serde_json::from_value::<LoopCase8>(v.clone()).ok().map(|c| c.run()),
        "c08-args" => serde_json::from_value::<ArgCase8>(v.clone()).ok().map(|c| c.run()),
        "history" => serde_json::from_value::<HistCase>(v.clone()).ok().map(|c| c.run()),
        _ => None,
    }
}

pub fn run(ctx: &Ctx) -> i32 {
    let mut st = ctx.run_replays(&dispatch);
    let t = ctx.tier;
    let (len, total) = t.pick((22usize, 200000u64), (100, 600000));
    for (name, exact) in [("histories-exact", true), ("histories-mixed", false)] {
        let cfg = cfg_for(t, exact);
        st.merge(ctx.run_prop(name, total / 2, move || recipe_strategy(len), move |r| Some(HistCase { oracle: "c08".into(), hist: elaborate(&cfg, r) })));
    }
    for (name, p) in [("programs-with-large-dimensions", Profile::LargeDims), ("programs-with-wide-magnitudes", Profile::WideMagnitudes)] {
        let cfg = cfg_for(t, false).with_profile(p, t == Tier::Thorough, crate::exec::IS_F32);
        st.merge(ctx.run_prop(name, profile_total(t, p), move || recipe_strategy(len), move |r| Some(HistCase { oracle: "c08".into(), hist: elaborate(&cfg, r) })));
    }
    st.merge(ctx.run_indexed("training-loops-with-user-optimizer", 3 * 3 * 4 * 2, None, |i| {
        Some(LoopCase8 { input: 1 + (i % 3) as usize, hidden: 2 + ((i / 3) % 3) as usize, output: 1 + (i % 2) as usize, batch: ((i / 9) % 4) as usize, iterations: 3, skip: (i / 36) as usize, vseed: i * 77 + ctx.seed, last_act: 0, cross_entropy: false, input_scale: 0.0 })
    }));
    // the same loops with sigmoid / softmax outputs, cross-entropy, and inputs large enough to saturate the outputs
    {
        let scales: [f64; 4] = if crate::exec::IS_F32 { [1.0, 3.0, 8.0, 20.0] } else { [1.0, 12.0, 60.0, 200.0] };
        st.merge(ctx.run_indexed("training-loops-with-saturated-outputs", 2 * 2 * 4 * 3 * 2, None, |i| {
            Some(LoopCase8 { input: 1 + (i % 2) as usize, hidden: 2 + (i % 3) as usize, output: 2 + ((i / 2) % 2) as usize, batch: ((i / 16) % 3) as usize, iterations: 2, skip: (i / 48) as usize, vseed: i * 131 + ctx.seed, last_act: 1 + ((i / 2) % 2) as u8, cross_entropy: (i / 2) % 4 < 3, input_scale: scales[((i / 4) % 4) as usize] })
        }));
    }
    // single calls: the operands of every operation, activation closure and cost closure are unchanged afterwards
    {
        let ops = arg_ops();
        let no = ops.len() as u64 + 2;
        st.merge(ctx.run_indexed("operands-of-single-calls-unchanged", no * t.pick(60, 1500), None, |i| {
            let z = refmodel::vals::mix(i ^ 0xC08 ^ ctx.seed.wrapping_mul(0x9E3779B1));
            let k = (i % no) as usize;
            Some(ArgCase8 { target: if k < ops.len() { ArgTarget::Op(ops[k].clone()) } else { ArgTarget::Cost { cross_entropy: k == ops.len() } }, vseed: z, tracked: (z >> 50) & 1 == 1, backward: (z >> 51) & 1 == 1 })
        }));
    }
    if ctx.tier == Tier::Thorough {
        st.merge(ctx.run_fuzz(20000, ctx.threads, &dispatch));
    }
    finish(
        ctx,
        st,
        "cases = histories of up to 25 (quick) / 120 (thorough) steps over a pool of live handles: forward operations (incl. reshape views and sum(0) aliases), clones, backward passes with and without seeds, gradient reads (the fetched gradient stays in the pool while later passes accumulate on top of it), clears, GradientDescent updates over parameter lists in which some parameters hold no gradient and older clones stay alive, re-binding, drops. Invariant after EVERY step: for every live handle, dimensions and the bit patterns of all values equal the snapshot taken when the handle was created; after an update the parameter's handle holds a new array (fresh snapshot) and every older clone is unchanged. Non-trivial = the history contains at least one pass and at least one snapshot comparison; distinct by history structure.",
        &["the source audit mentioned in the property (no unsafe, no interior mutability around values) is static analysis and not part of this verdict", "the reference model is used for typing only; the oracle compares corgi with its own earlier snapshots"],
        json!({}),
    )
}
