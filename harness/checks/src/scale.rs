//! Cases that need SCALE rather than variety: a node consumed tens of thousands of times in one result. The expected
//! values are known in closed form, so no reference model runs at this size.
//!
//!   x = [v] (tracked);  n = custom_scale_by_one(x)  (a harness closure through Array::op that logs its invocations)
//!   t_i = n * c_i  (i < uses, c_i = i % 7 + 1);  y = balanced sum of the t_i
//!
//! C01 / C10 / C11 read it differently: the gradient of x after one pass is sum(c_i) * seed (C01); after a second
//! pass with seed 3 it is 4 * sum(c_i) (C10: additive), and after a clear a pass on an unrelated result z = x * 5
//! stores exactly 5 (C10: no residue); the custom node's derivative runs exactly once per pass and receives the
//! complete sum (C11).

use crate::exec::*;
use crate::runner::*;
use corgi::array::{Array, BackwardOp, ForwardOp};
use corgi::numbers::Float;
use serde::{Deserialize, Serialize};
use serde_json::{json, Value};
use std::cell::RefCell;
use std::rc::Rc;

#[derive(Clone, Debug, Serialize, Deserialize)]
pub struct FanInCase {
    pub uses: usize,
    /// which property's reading is judged: "c01", "c10", "c11"
    pub oracle: String,
    /// the consumers multiply (x * c_i) or add (x + c_i) or use x on both sides (x * x is avoided: values explode)
    pub additive: bool,
}

fn plain(dims: &[usize], v: Vec<Float>) -> Array {
    Array::from((dims.to_vec(), v))
}

impl FanInCase {
    fn check(&self) -> Result<(), (String, String)> {
        let e = |k: &str, d: String| Err((k.to_string(), d));
        let log: Rc<RefCell<Vec<Vec<f64>>>> = Rc::new(RefCell::new(vec![]));
        let x = plain(&[1], vec![2.0]).tracked();
        let fw: ForwardOp = Rc::new(|a: &[&Array]| plain(a[0].dimensions(), a[0].values().to_vec()));
        let lg = Rc::clone(&log);
        let bw: BackwardOp = Rc::new(move |_c, t, d| {
            lg.borrow_mut().push(f64s(d.values()));
            vec![if t[0] { Some(plain(d.dimensions(), d.values().to_vec())) } else { None }]
        });
        let n = Array::op(&[&x], fw, Some(bw));
        let coef = |i: usize| (i % 7 + 1) as Float;
        let mut level: Vec<Array> = (0..self.uses).map(|i| if self.additive { &n + &plain(&[1], vec![coef(i)]) } else { &n * &plain(&[1], vec![coef(i)]) }).collect();
        while level.len() > 1 {
            let mut next = Vec::with_capacity(level.len() / 2 + 1);
            let mut it = level.chunks(2);
            for pair in &mut it {
                next.push(if pair.len() == 2 { &pair[0] + &pair[1] } else { pair[0].clone() });
            }
            level = next;
        }
        let y = level.pop().unwrap();
        let total: f64 = if self.additive { self.uses as f64 } else { (0..self.uses).map(|i| coef(i) as f64).sum() };
        let grad = |a: &Array| a.gradient().as_ref().map(|g| f64s(g.values()));
        // pass 1: omitted seed
        y.backward(None);
        let g1 = grad(&x);
        if g1 != Some(vec![total]) {
            return e("fan-in-gradient", format!("x consumed {} times in one result: gradient {:?} after backward(None), expected [{}]", self.uses, g1, total));
        }
        if self.oracle == "c11" {
            let l = log.borrow();
            if l.len() != 1 || l[0] != vec![total] {
                return e("fan-in-invocations", format!("the custom node with {} consumers: derivative invocations {:?}, expected exactly one with delta [{}]", self.uses, &l[..l.len().min(4)], total));
            }
        }
        if self.oracle == "c01" {
            return Ok(());
        }
        // pass 2 with seed 3: accumulates to 4 * total
        y.backward(Some(plain(&[1], vec![3.0])));
        let g2 = grad(&x);
        if g2 != Some(vec![4.0 * total]) {
            return e("fan-in-accumulation", format!("x consumed {} times: gradient {:?} after a second pass with seed 3, expected [{}]", self.uses, g2, 4.0 * total));
        }
        if self.oracle == "c11" {
            let l = log.borrow();
            if l.len() != 2 || l[1] != vec![3.0 * total] {
                return e("fan-in-invocations", format!("second pass: derivative invocations {:?}, expected a second one with delta [{}]", &l[..l.len().min(4)], 3.0 * total));
            }
            return Ok(());
        }
        // clear; a pass on an unrelated result sharing the leaf stores exactly its own contribution
        x.replace_gradient();
        n.replace_gradient();
        let z = &x * &plain(&[1], vec![5.0]);
        z.backward(None);
        let g3 = grad(&x);
        if g3 != Some(vec![5.0]) {
            return e("fan-in-residue", format!("after clearing, a pass on z = x * 5 stores {:?} in x, expected [5] (x was consumed {} times by an earlier result)", g3, self.uses));
        }
        // and a pass started on x itself stores the seed
        x.replace_gradient();
        x.backward(Some(plain(&[1], vec![7.0])));
        let g4 = grad(&x);
        if g4 != Some(vec![7.0]) {
            return e("fan-in-residue", format!("after clearing, x.backward([7]) stores {:?}, expected [7]", g4));
        }
        Ok(())
    }
}

impl CaseKind for FanInCase {
    const KIND: &'static str = "fan-in";
    fn size(&self) -> usize {
        self.uses
    }
    fn sample(&self) -> Value {
        json!({"consumers_of_one_node": self.uses, "additive": self.additive})
    }
    fn run(&self) -> Outcome {
        let mut k = KeyHasher::new("fan-in");
        k.u(self.uses as u64).b(self.additive).s(&self.oracle);
        let classes = vec![format!("fan-in:{}", if self.uses > 65535 { ">65535" } else if self.uses > 255 { ">255" } else { "small" })];
        match guarded(|| self.check()) {
            Err(p) => Outcome::fail("unexpected-panic", "unexpected-panic:fan-in".into(), format!("a node consumed {} times: {}", self.uses, p), k.finish(), classes),
            Ok(Ok(())) => Outcome::pass(self.uses >= 2, k.finish(), classes),
            Ok(Err((kind, d))) => Outcome::fail(&kind, kind.clone(), d, k.finish(), classes),
        }
    }
}

/// the fan-in sizes of the campaign: around 2^8 and 2^16, and a few ordinary ones
pub fn fan_in_cases(oracle: &str, thorough: bool) -> Vec<FanInCase> {
    let mut sizes = vec![2, 3, 255, 256, 257, 1000, 65535, 65536, 65537, 70001];
    if thorough {
        sizes.extend([131073, 200001]);
    }
    let mut v = vec![];
    for s in sizes {
        for additive in [false, true] {
            v.push(FanInCase { uses: s, oracle: oracle.to_string(), additive });
        }
    }
    v
}
