//! C15 Layers, activations, costs and the model compute their documented formulas.

use crate::cmp::*;
use crate::exec::*;
use crate::layers::*;
use crate::runner::*;
use crate::vals::*;
use corgi::layer::Layer;
use corgi::model::Model;
use corgi::optimizer::gd::GradientDescent;
use proptest::prelude::*;
use refmodel::ops::{self, Act};
use refmodel::tensor::*;
use serde::{Deserialize, Serialize};
use serde_json::{json, Value};

#[derive(Clone, Debug, Serialize, Deserialize)]
pub enum Case15 {
    /// layer-by-layer forward, Model::forward composition and Model::backward's return value
    Stack {
        specs: Vec<LayerSpec>,
        batch: usize,
        rows: usize,
        cols: usize,
        pseed: u64,
        xseed: u64,
        int_data: bool,
        cost: CostKind,
        /// every generated parameter is multiplied by this (large logits); 0 means 1
        #[serde(default)]
        pscale: f64,
        /// the input IS the first dense layer's weight array (a clone of the handle returned by `parameters()`:
        /// shared storage, batch = output size)
        #[serde(default)]
        input_is_weights: bool,
    },
    /// the cost closures on arbitrary equal-shaped arrays
    Cost {
        kind: CostKind,
        dims: Vec<usize>,
        seed: u64,
        /// outputs of very different magnitudes, down to probabilities far below 1e-12 (0: ordinary outputs)
        #[serde(default)]
        wide: u8,
        /// the target's dimensions when they differ from the output's (broadcast-compatible: the difference
        /// target - output follows the library's broadcasting, the divisor stays the OUTPUT's element count)
        #[serde(default)]
        tdims: Option<Vec<usize>>,
    },
}

fn cmp_t(what: &str, got: &corgi::array::Array, want: &T, exact: bool) -> Result<(), (String, String)> {
    match diff_array_forward(got, &want.dims, &want.values(), &want.mags(), exact) {
        None => Ok(()),
        Some(d) if d == UNDECIDABLE => Err(("discard".into(), d)),
        Some(d) => Err((if got.dimensions() != &want.dims[..] { format!("wrong-dimensions:{}", what) } else { format!("value-mismatch:{}", what) }, format!("{}: {}", what, d))),
    }
}

impl Case15 {
    fn check(&self) -> Result<bool, (String, String)> {
        match self {
            Case15::Cost { kind, dims, seed, wide, tdims } => {
                let n = numel(dims);
                let o = match *wide {
                    0 => gen_vals(*seed, n, VKind::Pos),
                    1 => gen_vals(*seed, n, VKind::PosReal),
                    // probabilities: (0, 1], spread over many orders of magnitude
                    2 => wide_vals(*seed, n, if IS_F32 { -30 } else { -300 }, if IS_F32 { 30 } else { 300 }, false).into_iter().map(|v: f64| v.min(1.0)).collect(),
                    _ => wide_vals(*seed, n, 0, if IS_F32 { 20 } else { 60 }, *kind == CostKind::Mse),
                };
                let td: &Vec<usize> = tdims.as_ref().unwrap_or(dims);
                let t = gen_vals(seed ^ 5, numel(td), if *kind == CostKind::Mse { VKind::Signed } else { VKind::Pos });
                let want = ref_cost(*kind, &T::from_f64(dims, &o), &T::from_f64(td, &t)).map_err(|e| ("internal".to_string(), format!("{:?}", e)))?;
                let f = make_cost(*kind);
                let got = guarded(|| f(&arr(dims, &o), &arr(td, &t))).map_err(|p| ("unexpected-panic:cost".to_string(), format!("{:?} cost on output dims {:?}, target dims {:?} panicked: {}", kind, dims, td, p)))?;
                cmp_t(&format!("{:?}-cost", kind), &got, &want, false).map_err(|(k, d)| (k, format!("{} (output/target dims {:?})", d, dims)))?;
                Ok(n > 1)
            }
            Case15::Stack { specs, batch, rows, cols, pseed, xseed, int_data, cost, pscale, input_is_weights } => {
                let e = |k: &str, d: String| Err((k.to_string(), d));
                let acts = acts_for(specs);
                let scale = if *pscale == 0.0 { 1.0 } else { *pscale };
                // large-logit stacks use positive parameters and inputs, so that a whole row has the same sign
                let kind = if scale != 1.0 { VKind::PosInt } else if *int_data { VKind::Int } else { VKind::Small };
                let mut layers = match guarded(|| build_layers_scaled(specs, &acts, *pseed, kind, scale, None)) {
                    Ok(l) => l,
                    Err(p) => return e("unexpected-panic:construct", format!("constructing {:?} panicked: {}", specs, p)),
                };
                let params = read_params(&mut layers);
                // documented parameter shapes
                for (s, ps) in specs.iter().zip(&params) {
                    let want: Vec<Vec<usize>> = match s {
                        LayerSpec::Dense { input, output, .. } => vec![vec![*output, *input], vec![*output]],
                        LayerSpec::Conv { count, depth, fr, fc, .. } => vec![vec![*count, *depth, *fr, *fc], vec![*count, 1, 1]],
                        LayerSpec::Flatten | LayerSpec::Gate => vec![],
                    };
                    let got: Vec<Vec<usize>> = ps.iter().map(|p| p.0.clone()).collect();
                    if got != want {
                        return e("parameter-shapes", format!("{:?} has parameter dimensions {:?}, expected {:?}", s, got, want));
                    }
                }
                let xd = input_dims(specs, *batch, *rows, *cols);
                let mut xv = gen_vals(*xseed, numel(&xd), kind);
                if scale != 1.0 && *batch >= 2 {
                    // rows of the batch are sign-flipped copies of the first one: logits far apart within one batch
                    let row = numel(&xd) / *batch;
                    for r in 1..*batch {
                        for j in 0..row {
                            xv[r * row + j] = if r % 2 == 1 { -xv[j] } else { xv[j] };
                        }
                    }
                }
                // the input shares its storage with the first layer's weights
                let mut aliased_input: Option<corgi::array::Array> = None;
                let (xd, xv) = if *input_is_weights && matches!(specs.first(), Some(LayerSpec::Dense { .. })) {
                    let w = layers[0].parameters().into_iter().next().map(|p| p.clone());
                    match w {
                        Some(w) => {
                            let d = w.dimensions().to_vec();
                            let v = f64s(w.values());
                            aliased_input = Some(w.untracked());
                            (d, v)
                        }
                        None => (xd, xv),
                    }
                } else {
                    (xd, xv)
                };
                let exact = *int_data && scale == 1.0 && specs.iter().all(|s| matches!(s, LayerSpec::Dense { act: Act::None | Act::Relu, .. } | LayerSpec::Conv { act: Act::None | Act::Relu, .. } | LayerSpec::Flatten));
                // layer by layer
                let mut cur_ref = T::from_f64(&xd, &xv);
                let mut cur = match &aliased_input {
                    Some(w) => w.clone(),
                    None => arr(&xd, &xv),
                };
                let kinks = ops::kink_count();
                for (i, s) in specs.iter().enumerate() {
                    let pt: Vec<T> = params[i].iter().map(|(d, v)| T::from_f64(d, v)).collect();
                    cur_ref = match ref_layer(s, &pt, &cur_ref) {
                        Ok(t) => t,
                        Err(_) => return Err(("discard".into(), "stack not admissible".into())),
                    };
                    if !cur_ref.all_finite() || cur_ref.vals.iter().any(|v| !v.vm.is_finite() || v.vm > 1e8) {
                        return Err(("discard".into(), "values leave the well-conditioned domain (overflow in exp/softmax)".into()));
                    }
                    if ops::kink_count() > kinks && !exact {
                        return Err(("discard".into(), "a relu input is zero only up to rounding".into()));
                    }
                    let l = &layers[i];
                    cur = match guarded(|| l.forward(cur.clone())) {
                        Ok(a) => a,
                        Err(p) => return e(&format!("unexpected-panic:{}", layer_name(s)), format!("forward of layer {} {:?} on input dims {:?} panicked: {}", i, s, xd, p)),
                    };
                    cmp_t(layer_name(s), &cur, &cur_ref, exact).map_err(|(k, d)| (k, format!("layer {} {:?} (stack {:?}, input dims {:?}): {}", i, s, specs, xd, d)))?;
                }
                // the model: forward = composition in order; backward returns sum(cost)
                // cross-entropy needs positive outputs; they may be tiny (confidently wrong predictions): the outputs of
                // sigmoid / softmax layers are relatively accurate down to the subnormal range
                let positive_out = cur_ref.vals.iter().all(|v| v.v > if IS_F32 { 1e-30 } else { 1e-290 });
                let cost_kind = if *cost == CostKind::CrossEntropy && !positive_out { CostKind::Mse } else { *cost };
                let cf = make_cost(cost_kind);
                let gd = GradientDescent::new(0.0);
                // every second stack is evaluated with all parameters frozen (tracking off), as a pre-trained model would be
                let frozen = (*pseed ^ *xseed) % 2 == 1;
                if frozen {
                    for l in layers.iter_mut() {
                        for p in l.parameters() {
                            p.stop_tracking();
                        }
                    }
                }
                let refs: Vec<&mut dyn Layer> = layers.iter_mut().map(|b| &mut **b as &mut dyn Layer).collect();
                let mut model = Model::new(refs, &gd, &cf);
                // an earlier forward pass on another input must not influence what follows
                let other = gen_vals(xseed ^ 0x5151, numel(&xd), kind);
                if let Err(p) = guarded(|| drop(model.forward(arr(&xd, &other)))) {
                    return e("unexpected-panic:model-forward", format!("Model::forward panicked: {}", p));
                }
                let out = match guarded(|| model.forward(match &aliased_input {
                    Some(w) => w.clone(),
                    None => arr(&xd, &xv),
                })) {
                    Ok(o) => o,
                    Err(p) => return e("unexpected-panic:model-forward", format!("Model::forward panicked: {}", p)),
                };
                cmp_t("model-forward", &out, &cur_ref, exact).map_err(|(k, d)| (k, format!("stack {:?}, input dims {:?}: {}", specs, xd, d)))?;
                let tv = gen_vals(xseed ^ 77, cur_ref.numel(), if cost_kind == CostKind::Mse { VKind::Small } else { VKind::Pos });
                let tref = T::from_f64(&cur_ref.dims, &tv);
                let cref = ref_cost(cost_kind, &cur_ref, &tref).map_err(|e| ("internal".to_string(), format!("{:?}", e)))?;
                let want = ops::sum_all(&cref);
                // every third stack: a backward call with a target the cost must refuse comes first (caught); the valid
                // call that follows refers to the same stored output and returns its loss
                if (*pseed ^ *xseed) % 3 == 0 {
                    let mut bad = cur_ref.dims.clone();
                    let l = bad.len() - 1;
                    bad[l] += 2;
                    let _ = guarded(|| model.backward(arr(&bad, &vec![0.5; numel(&bad)])));
                }
                let loss = match guarded(|| model.backward(arr(&cur_ref.dims, &tv))) {
                    Ok(l) => l as f64,
                    Err(p) => return e("unexpected-panic:model-backward", format!("Model::backward panicked (stack {:?}, input dims {:?}, cost {:?}): {}", specs, xd, cost_kind, p)),
                };
                if !close(loss, want.v, want.vm, false) {
                    return e("loss-value", format!("Model::backward returned {:?}, expected sum(cost) = {:?} for the LAST forward pass (stack {:?}, input dims {:?}, output dims {:?}, cost {:?}, parameters frozen: {}; an earlier forward on another input ran before)", loss, want.v, specs, xd, cur_ref.dims, cost_kind, frozen));
                }
                Ok(*batch > 1 || specs.len() >= 2 || specs.iter().any(|s| matches!(s, LayerSpec::Dense { act, .. } | LayerSpec::Conv { act, .. } if *act != Act::None)))
            }
        }
    }
}

fn layer_name(s: &LayerSpec) -> &'static str {
    match s {
        LayerSpec::Dense { .. } => "dense",
        LayerSpec::Conv { .. } => "conv-layer",
        LayerSpec::Flatten => "flatten",
        LayerSpec::Gate => "user-defined-activation",
    }
}

impl CaseKind for Case15 {
    const KIND: &'static str = "c15";
    fn size(&self) -> usize {
        match self {
            Case15::Cost { dims, .. } => numel(dims) + dims.len(),
            Case15::Stack { specs, batch, rows, cols, .. } => specs.iter().map(n_params).sum::<usize>() + specs.len() * 8 + batch * rows * cols,
        }
    }
    fn sample(&self) -> Value {
        match self {
            Case15::Cost { kind, dims, .. } => json!({"cost": format!("{:?}", kind), "dims": dims}),
            Case15::Stack { specs, batch, rows, cols, cost, .. } => json!({"stack": format!("{:?}", specs), "batch": batch, "image": [rows, cols], "cost": format!("{:?}", cost)}),
        }
    }
    fn run(&self) -> Outcome {
        let mut k = KeyHasher::new("c15");
        let classes = match self {
            Case15::Cost { kind, dims, wide, tdims, .. } => {
                k.s(&format!("{:?}", kind)).us(dims).u(*wide as u64).us(tdims.as_ref().unwrap_or(&vec![]));
                vec![format!("cost:{:?}", kind), format!("cost-rank:{}", dims.len())]
            }
            Case15::Stack { specs, batch, rows, cols, cost, int_data, input_is_weights, .. } => {
                k.s(&format!("{:?}{:?}", specs, cost)).u(*batch as u64).u(*rows as u64).u(*cols as u64).b(*int_data).b(*input_is_weights);
                let mut c: Vec<String> = specs.iter().map(|s| format!("layer:{}", layer_name(s))).collect();
                c.sort();
                c.dedup();
                c.push(format!("batch:{}", if *batch == 0 { "unbatched".into() } else { batch.min(&3).to_string() }));
                c.push(format!("layers:{}", specs.len()));
                c
            }
        };
        match self.check() {
            Ok(nt) => Outcome::pass(nt, k.finish(), classes),
            Err((kind, d)) if kind == "discard" => Outcome::discard(&d),
            Err((kind, d)) if kind == "internal" => Outcome::internal(d),
            Err((kind, d)) => Outcome::fail(kind.split(':').next().unwrap(), kind.clone(), d, k.finish(), classes),
        }
    }
}

pub fn dispatch(kind: &str, v: &Value) -> Option<Outcome> {
    match kind {
        "c15" => serde_json::from_value::<Case15>(v.clone()).ok().map(|c| c.run()),
        _ => None,
    }
}

pub fn run(ctx: &Ctx) -> i32 {
    let mut st = ctx.run_replays(&dispatch);
    let t = ctx.tier;
    // costs on every small shape
    let shapes = crate::opcase::all_shapes(4, 3);
    let ns = shapes.len() as u64;
    st.merge(ctx.run_indexed("costs-all-small-shapes", ns * 2, Some("mse and cross-entropy closures on all output/target shapes of rank 1..4, sizes 1..3"), |i| {
        Some(Case15::Cost { kind: if i % 2 == 0 { CostKind::Mse } else { CostKind::CrossEntropy }, dims: shapes[(i / 2) as usize].clone(), seed: i, wide: 0, tdims: None })
    }));
    // targets whose shape differs from the output's but broadcasts against it
    {
        let pairs: Vec<(Vec<usize>, Vec<usize>)> = vec![(vec![3, 1], vec![3]), (vec![2, 3], vec![3]), (vec![3], vec![2, 1]), (vec![2, 1], vec![1, 3]), (vec![4, 1], vec![4]), (vec![2, 2, 1], vec![2]), (vec![1, 3], vec![3]), (vec![3], vec![1, 3]), (vec![2, 3], vec![1]), (vec![1], vec![2, 2])];
        let np = pairs.len() as u64;
        st.merge(ctx.run_indexed("costs-with-broadcast-targets", np * 2 * 2, None, |i| {
            let (od, td) = pairs[(i % np) as usize].clone();
            Some(Case15::Cost { kind: if (i / np) % 2 == 0 { CostKind::Mse } else { CostKind::CrossEntropy }, dims: od, seed: i + 900, wide: (i / np / 2) as u8, tdims: Some(td) })
        }));
    }
    st.merge(ctx.run_indexed("costs-on-outputs-of-any-magnitude", ns * 2 * 3, None, |i| {
        Some(Case15::Cost { kind: if i % 2 == 0 { CostKind::Mse } else { CostKind::CrossEntropy }, dims: shapes[((i / 2) % ns) as usize].clone(), seed: i ^ ctx.seed.wrapping_mul(0x9E3779B1), wide: 1 + (i / 2 / ns) as u8, tdims: None })
    }));
    // single dense layers: all sizes 1..4 x activations x input forms
    let acts = [Act::None, Act::Relu, Act::Sigmoid, Act::Softmax];
    st.merge(ctx.run_indexed("dense-layers", 4 * 4 * 4 * 4 * 2 * 2, Some("Dense in/out sizes 1..4 x 4 activations x input [in] / [1,in] / [2,in] / [3,in] x integer / fractional parameters"), |i| {
        let input = 1 + (i % 4) as usize;
        let output = 1 + ((i / 4) % 4) as usize;
        let act = acts[((i / 16) % 4) as usize];
        let batch = ((i / 64) % 4) as usize;
        Some(Case15::Stack { specs: vec![LayerSpec::Dense { input, output, act }], batch, rows: 1, cols: 1, pseed: i, xseed: i + 1, int_data: (i / 256) % 2 == 0, cost: CostKind::Mse, pscale: 1.0, input_is_weights: (i / 512) % 2 == 1 })
    }));
    let (total, max_batch) = t.pick((120000u64, 3usize), (600000, 5));
    let strat = move || (any::<[u8; 8]>(), 0..=max_batch, any::<u64>(), any::<u64>(), any::<bool>(), any::<bool>(), 1..=8usize).boxed();
    st.merge(ctx.run_prop("random-stacks", total, strat, |(b, batch, pseed, xseed, int_data, ce, cdims)| {
        let cost = if *ce { CostKind::CrossEntropy } else { CostKind::Mse };
        let (specs, rows, cols) = make_stack(b, if *ce { Some(if b[7] & 1 == 0 { Act::Softmax } else { Act::Sigmoid }) } else { None });
        let _ = cdims;
        Some(Case15::Stack { specs, batch: *batch, rows, cols, pseed: *pseed, xseed: *xseed, int_data: *int_data && !*ce, cost, pscale: 1.0, input_is_weights: *xseed % 7 == 0 })
    }));
    // large logits: softmax / sigmoid layers whose pre-activations are far from zero and differ in sign across the batch
    let scales: Vec<f64> = if crate::exec::IS_F32 { vec![2.0, 4.0, 6.0] } else { vec![15.0, 25.0, 40.0, 60.0, 90.0] };
    let nsc = scales.len() as u64;
    st.merge(ctx.run_indexed("large-logits", nsc * 3 * 3 * 2 * 3 * 2, None, |i| {
        let ce = (i / (nsc * 3 * 3 * 2 * 3)) == 1;
        let i = i % (nsc * 3 * 3 * 2 * 3);
        let pscale = scales[(i % nsc) as usize];
        let input = 1 + ((i / nsc) % 3) as usize;
        let output = 2 + ((i / nsc / 3) % 3) as usize;
        let act = if (i / nsc / 9) % 2 == 0 { Act::Softmax } else { Act::Sigmoid };
        let batch = 2 + ((i / nsc / 18) % 3) as usize;
        Some(Case15::Stack { specs: vec![LayerSpec::Dense { input, output, act }], batch, rows: 1, cols: 1, pseed: i + 11, xseed: i + 12, int_data: true, cost: if ce { CostKind::CrossEntropy } else { CostKind::Mse }, pscale, input_is_weights: false })
    }));
    let strat2 = move || (prop::collection::vec(1..=6usize, 1..=4), any::<bool>(), any::<u64>()).boxed();
    st.merge(ctx.run_prop("random-costs", total / 4, strat2, |(dims, ce, seed)| Some(Case15::Cost { kind: if *ce { CostKind::CrossEntropy } else { CostKind::Mse }, dims: dims.clone(), seed: *seed, wide: (*seed % 4) as u8, tdims: None })));
    finish(
        ctx,
        st,
        "cases = (1) layer stacks (1-3 dense layers; 1-2 conv layers incl. rectangular images/filters and unequal strides; conv -> user-defined flatten -> dense) with parameters chosen by the generator through a deterministic initializer and read back through Layer::parameters(), inputs unbatched / [1,..] / [b,..]: every layer's forward is compared with activation(x W^T + b) resp. activation(conv(x,f,s) + b), Model::forward with the composition in order, Model::backward's return value with the sum of the reference cost array, and the parameters' documented shapes; (2) the mse and cross-entropy closures on arbitrary equal-shaped arrays of rank 1..4 against (t-o)^2/count and -t ln(o)/leading dimension. Non-trivial = batch > 1 or an activation or >= 2 layers, or a cost on more than one element; distinct by (stack, batch, image size, data kind, cost) / (cost, shape).",
        &["integer parameters and inputs through dense/conv layers with no or relu activation are compared bitwise; everything else within the magnitude-scaled tolerance (rtol 1e-9 f64)", "cross-entropy is only applied to positive outputs (softmax/sigmoid last layer) and positive targets"],
        json!({}),
    )
}
