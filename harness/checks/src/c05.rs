//! C05 Matrix multiplication computes the batched, optionally transposed product.

use crate::gens::*;
use crate::opcase::*;
use crate::runner::*;
use crate::vals::*;
use proptest::prelude::*;
use refmodel::ir::OpKind;
use refmodel::tensor::*;
use serde_json::{json, Value};

fn fwd(cfg: &MatmulCfg) -> FwdCase {
    FwdCase { op: cfg.op(), leaves: cfg.leaves([false, false, false]), force_exact: None, second_is_view_of_first: None }
}

/// inadmissible variants of an admissible configuration
fn broken(cfg: &MatmulCfg) -> Vec<MatmulCfg> {
    let mut out = vec![];
    // mismatching inner dimension: grow b's inner dimension
    {
        let mut c = cfg.clone();
        let n = c.b.len();
        if n == 1 {
            c.b[0] += 1;
        } else if c.tb {
            c.b[n - 1] += 1;
        } else {
            c.b[n - 2] += 1;
        }
        c.c = None;
        out.push(c);
    }
    {
        let mut c = cfg.clone();
        let n = c.a.len();
        if n == 1 {
            c.a[0] += 1;
        } else if c.ta {
            c.a[n - 2] += 1;
        } else {
            c.a[n - 1] += 1;
        }
        c.c = None;
        out.push(c);
    }
    // incompatible leading dimensions
    if cfg.a.len() > 2 && cfg.b.len() > 2 {
        let (na, nb) = (cfg.a.len(), cfg.b.len());
        let (ia, ib) = (na - 3, nb - 3);
        if cfg.a[ia] > 1 && cfg.b[ib] > 1 {
            let mut c = cfg.clone();
            c.b[ib] += 1;
            c.c = None;
            out.push(c);
        }
    }
    // additive term that cannot be broadcast over rows and batches
    if let Some(cd) = &cfg.c {
        if numel(cd) > 1 {
            let mut c = cfg.clone();
            let l = cd.len();
            let mut d = cd.clone();
            d[l - 1] += 1;
            c.c = Some(d);
            out.push(c);
            if l >= 2 && cd[l - 2] > 1 {
                let mut c = cfg.clone();
                let mut d = cd.clone();
                d[l - 2] += 1;
                c.c = Some(d);
                out.push(c);
            }
            if l >= 3 && cd[l - 3] > 1 {
                let mut c = cfg.clone();
                let mut d = cd.clone();
                d[l - 3] += 1;
                c.c = Some(d);
                out.push(c);
            }
        }
    }
    out
}

#[derive(Clone, Debug)]
struct MmRecipe {
    r: usize,
    k: usize,
    c: usize,
    m: usize,
    n: usize,
    sel: usize,
    vseed: u64,
}

fn random_case(r: &MmRecipe) -> Option<FwdCase> {
    let cfgs = matmul_cfgs(&[(r.r, r.k, r.c)], true, r.m, r.n);
    let cfg = &cfgs[r.sel % cfgs.len()];
    let mut leaves = vec![
        LeafSpec { dims: cfg.a.clone(), vals: gen_vals(r.vseed, numel(&cfg.a), VKind::Small), tracked: false },
        LeafSpec { dims: cfg.b.clone(), vals: gen_vals(r.vseed ^ 1, numel(&cfg.b), VKind::Small), tracked: false },
    ];
    if let Some(c) = &cfg.c {
        leaves.push(LeafSpec { dims: c.clone(), vals: gen_vals(r.vseed ^ 2, numel(c), VKind::Small), tracked: false });
    }
    Some(FwdCase { op: cfg.op(), leaves, force_exact: None, second_is_view_of_first: None })
}

pub fn dispatch(kind: &str, v: &Value) -> Option<Outcome> {
    match kind {
        "forward-op" => serde_json::from_value::<FwdCase>(v.clone()).ok().map(|c| c.run()),
        "forward-op-sequence" => serde_json::from_value::<SeqCase>(v.clone()).ok().map(|c| c.run()),
        "forward-op-reuse-sequence" => serde_json::from_value::<ReuseSeqCase>(v.clone()).ok().map(|c| c.run()),
        _ => None,
    }
}

pub fn campaigns(ctx: &Ctx) -> Stats {
    let mut st = Stats::default();
    // ONE matrix used again - itself, a clone, or a reshaped VIEW of the same buffer under other dimensions - in a later
    // product next to batched or plain partners: a product must not depend on what the same buffer was multiplied as
    // before (packed or transposed copies remembered per buffer)
    st.merge(ctx.run_indexed("reused-matrix-under-other-dimensions", ctx.tier.pick(200_000, 1_000_000), None, |i| {
        let z = mix(i ^ 0xC05A ^ ctx.seed.wrapping_mul(0x9E3779B1));
        let (p, q) = (1 + (z % 4) as usize, 1 + ((z >> 2) % 4) as usize);
        let x = LeafSpec { dims: vec![p, q], vals: gen_vals(z, p * q, VKind::Small), tracked: (z >> 60) & 1 == 1 };
        let views: Vec<Vec<usize>> = shapes_with_numel(p * q).into_iter().filter(|d| d.len() == 2).collect();
        let x_is_right = (z >> 4) & 1 == 1;
        let ncalls = 2 + ((z >> 5) % 2) as usize;
        let mut leaves = vec![x];
        let mut calls = vec![];
        for c in 0..ncalls {
            let y = mix(z ^ (c as u64 + 11));
            let (ta, tb) = ((y >> 1) & 1 == 1, (y >> 2) & 1 == 1);
            // first call: the matrix as it is; later calls: any rank-2 view of it (possibly the same dimensions)
            let vd = if c == 0 { vec![p, q] } else { views[((y >> 8) % views.len() as u64) as usize].clone() };
            let view = if vd == vec![p, q] && (y >> 3) & 1 == 0 { None } else { Some(vd.clone()) };
            let me = ReuseArg { leaf: 0, view, via_clone: (y >> 4) & 1 == 1 };
            let lead: Vec<usize> = match (y >> 16) % 4 { 0 => vec![], 1 => vec![2], 2 => vec![3], _ => vec![2, 2] };
            let free = 1 + ((y >> 20) % 3) as usize;
            let mut od = lead.clone();
            if x_is_right {
                // op(X) = [inner, cols]; partner A with op(A) = [free, inner]
                let inner = if tb { vd[1] } else { vd[0] };
                od.extend(if ta { vec![inner, free] } else { vec![free, inner] });
            } else {
                let inner = if ta { vd[0] } else { vd[1] };
                od.extend(if tb { vec![free, inner] } else { vec![inner, free] });
            }
            leaves.push(LeafSpec { dims: od.clone(), vals: gen_vals(y, numel(&od), VKind::Small), tracked: false });
            let other = ReuseArg { leaf: c + 1, view: None, via_clone: false };
            calls.push(ReuseCall { op: OpKind::Matmul { ta, tb, has_c: false }, args: if x_is_right { vec![other, me] } else { vec![me, other] } });
        }
        Some(ReuseSeqCase { leaves, calls })
    }));
    let t = ctx.tier;
    let mut sizes = vec![];
    let mx = t.pick(3, 4);
    for r in 1..=mx {
        for k in 1..=mx {
            for c in 1..=mx {
                sizes.push((r, k, c));
            }
        }
    }
    let cfgs = matmul_cfgs(&sizes, true, 2, 3);
    st.merge(ctx.run_indexed(
        "admissible-configurations",
        cfgs.len() as u64,
        Some("(rows,inner,cols) in 1..3 (quick) / 1..4 (thorough) x 4 transpose combinations x 7x7 leading-dimension patterns (none,[n],[1],[m,n],[1,n],[m,1],[1,1]; m=2,n=3) x additive term absent/[cols]/[rows,cols]/[1,cols]/[1]/batched, and the rank-1 forms; exact integer data"),
        |i| Some(fwd(&cfgs[i as usize])),
    ));
    let mut bad = vec![];
    for c in &cfgs {
        bad.extend(broken(c));
    }
    // two vectors of different length, every small length pair
    for x in 1..=6 {
        for y in 1..=6 {
            if x != y {
                bad.push(MatmulCfg { a: vec![x], b: vec![y], ta: false, tb: false, c: None });
            }
        }
    }
    st.merge(ctx.run_indexed("inadmissible-configurations", bad.len() as u64, None, |i| Some(fwd(&bad[i as usize]))));
    // forward values and refusals do not depend on which operands are tracked
    let nadm = cfgs.len() as u64;
    st.merge(ctx.run_indexed("configurations-with-tracked-operands", nadm + bad.len() as u64, None, |i| {
        let cfg = if i < nadm { &cfgs[i as usize] } else { &bad[(i - nadm) as usize] };
        let sub = 1 + (i % 7);
        Some(FwdCase { op: cfg.op(), leaves: cfg.leaves([sub & 1 == 1, sub & 2 == 2, sub & 4 == 4]), force_exact: None, second_is_view_of_first: None })
    }));
    // a refused call must leave nothing behind: refused, then admissible, in one thread
    {
        let pairs: Vec<(usize, usize)> = (0..bad.len().min(cfgs.len())).step_by((bad.len() / 300).max(1)).map(|k| (k, (k * 7) % cfgs.len())).collect();
        st.merge(ctx.run_indexed("refused-then-admissible", pairs.len() as u64, None, |i| {
            let (b, a) = pairs[i as usize];
            Some(SeqCase { calls: vec![fwd(&bad[b]), fwd(&cfgs[a]), fwd(&bad[b]), fwd(&cfgs[(a + 1) % cfgs.len()])] })
        }));
    }
    // both factors are the SAME array (x x^T, x^T x, x x for square x), with every additive-term shape
    let mut same = vec![];
    for (r, k) in [(1usize, 1usize), (1, 3), (2, 1), (2, 2), (2, 3), (3, 2), (3, 3)] {
        for lead in [vec![], vec![2], vec![2, 3]] {
            let mut d = lead.clone();
            d.extend([r, k]);
            let mut flags = vec![(false, true), (true, false)];
            if r == k {
                flags.extend([(false, false), (true, true)]);
            }
            for (ta, tb) in flags {
                let (rows, cols) = (if ta { k } else { r }, if tb { r } else { k });
                for c in c_patterns(&lead, rows, cols) {
                    same.push(MatmulCfg { a: d.clone(), b: d.clone(), ta, tb, c });
                }
            }
        }
    }
    st.merge(ctx.run_indexed("both-factors-are-the-same-array", same.len() as u64, None, |i| {
        let cfg = &same[i as usize];
        let mut c = fwd(cfg);
        c.leaves[1].vals = c.leaves[0].vals.clone();
        if let Some(cl) = c.leaves.get_mut(2) {
            // unequal entries in the additive term
            cl.vals = iota(cl.vals.len(), 1000.0, 1000.0);
        }
        c.second_is_view_of_first = Some(cfg.a.clone());
        Some(c)
    }));
    // the second factor is a reshaped VIEW of the first with other (broadcasting) leading dimensions or the transposed-looking
    // factorisation: shared storage does not mean "a matrix against its own transpose"
    {
        let pairs: Vec<(Vec<usize>, Vec<usize>)> = vec![
            (vec![2, 2, 3], vec![2, 1, 2, 3]),
            (vec![2, 2, 2], vec![2, 1, 2, 2]),
            (vec![2, 2, 2], vec![1, 2, 2, 2]),
            (vec![2, 3], vec![3, 2]),
            (vec![2, 3], vec![1, 2, 3]),
            (vec![3, 2, 2], vec![3, 1, 2, 2]),
            (vec![2, 2], vec![1, 2, 2]),
            (vec![2, 2], vec![2, 2]),
            (vec![2, 3, 2], vec![2, 1, 3, 2]),
            (vec![4], vec![2, 2]),
            (vec![2, 2], vec![4]),
        ];
        let mut cases = vec![];
        for (xd, vd) in &pairs {
            for ta in [false, true] {
                for tb in [false, true] {
                    for swap in [false, true] {
                        let vals: Vec<f64> = (0..numel(xd)).map(|k| (k * k + 1) as f64).collect();
                        let mut st = refmodel::model::RefState::forward_only();
                        let a = st.new_leaf(xd, &vals, false);
                        let b = st.new_leaf(vd, &vals, false);
                        let op = OpKind::Matmul { ta, tb, has_c: false };
                        // the view is always the SECOND leaf of the case; `swap` decides which one is the left factor
                        let _ = swap;
                        if st.eval(&op, &[a, b]).is_ok() {
                            cases.push(FwdCase { op, leaves: vec![LeafSpec { dims: xd.clone(), vals: vals.clone(), tracked: swap }, LeafSpec { dims: vd.clone(), vals: vals.clone(), tracked: false }], force_exact: None, second_is_view_of_first: Some(vd.clone()) });
                        }
                    }
                }
            }
        }
        st.merge(ctx.run_indexed("factor-is-a-reshaped-view-of-the-other", cases.len() as u64, None, |i| Some(cases[i as usize].clone())));
    }
    // one of rows / inner / cols around typical block lengths, the others small
    {
        let nb = BOUNDARY_SIZES.len() as u64;
        st.merge(ctx.run_indexed("boundary-sizes", nb * 3 * 4 * 2, None, |i| {
            let n = BOUNDARY_SIZES[(i % nb) as usize];
            let which = (i / nb) % 3;
            let (ta, tb) = ((i / nb / 3) % 2 == 1, (i / nb / 6) % 2 == 1);
            let (r, k, c) = match which {
                0 => (n, 2, 3),
                1 => (2, n, 3),
                _ => (3, 2, n),
            };
            let lead: Vec<usize> = if (i / nb / 12) == 0 { vec![] } else { vec![2] };
            let mut a = lead.clone();
            a.extend(if ta { [k, r] } else { [r, k] });
            let b: Vec<usize> = if tb { vec![c, k] } else { vec![k, c] };
            let cfg = MatmulCfg { a, b, ta, tb, c: Some(vec![c]) };
            let mut f = fwd(&cfg);
            // small integers keep long sums exact
            f.leaves[0].vals = gen_vals(i, f.leaves[0].vals.len(), VKind::Int);
            f.leaves[1].vals = gen_vals(i + 1, f.leaves[1].vals.len(), VKind::Int);
            Some(f)
        }));
        st.merge(ctx.run_indexed("value-patterns", (N_PATTERNS * N_PATTERNS) as u64 * 4, None, |i| {
            let (pa, pb) = ((i % N_PATTERNS as u64) as usize, ((i / N_PATTERNS as u64) % N_PATTERNS as u64) as usize);
            let v = i / (N_PATTERNS * N_PATTERNS) as u64;
            let cfg = MatmulCfg { a: vec![2, 3, 2], b: vec![2, 4], ta: v & 1 == 1, tb: false, c: if v & 2 == 2 { Some(vec![1]) } else { Some(vec![4]) } };
            let cfg = if cfg.ta { MatmulCfg { a: vec![2, 2, 3], ..cfg } } else { cfg };
            let mut f = fwd(&cfg);
            f.leaves[0].vals = pattern_vals(pa, 12, i);
            f.leaves[1].vals = pattern_vals(pb, 8, i + 1);
            f.leaves[2].vals = pattern_vals(pa + pb, f.leaves[2].vals.len(), i + 2);
            Some(f)
        }));
    }
    // sequences of calls in one thread: the same (rows, inner, cols) with different leading dimensions and flags
    {
        let leads: Vec<Vec<Vec<usize>>> = vec![vec![vec![], vec![3]], vec![vec![2], vec![2, 3], vec![]], vec![vec![1], vec![4]], vec![vec![3], vec![1, 3]]];
        st.merge(ctx.run_indexed("call-sequences", (leads.len() * 4 * 3) as u64, None, |i| {
            let s = &leads[i as usize % leads.len()];
            let (ta, tb) = ((i as usize / leads.len()) % 2 == 1, (i as usize / leads.len() / 2) % 2 == 1);
            let (r, k, c) = [(2, 3, 2), (3, 1, 4), (1, 2, 3)][i as usize / leads.len() / 4];
            let calls = s
                .iter()
                .enumerate()
                .map(|(n, l)| {
                    let mut a = l.clone();
                    a.extend(if ta { [k, r] } else { [r, k] });
                    let b: Vec<usize> = if tb { vec![c, k] } else { vec![k, c] };
                    let cfg = MatmulCfg { a, b, ta, tb, c: if n % 2 == 0 { Some(vec![c]) } else { None } };
                    fwd(&cfg)
                })
                .collect();
            Some(SeqCase { calls })
        }));
    }
    // operands of very different magnitudes (against each other, and element by element), full mantissas;
    // inner lengths on both sides of typical unrolling factors
    {
        let dims: Vec<(usize, usize, usize)> = vec![(2, 8, 2), (3, 9, 2), (2, 17, 3), (1, 5, 4), (4, 3, 1), (2, 2, 2), (3, 16, 3), (2, 33, 2)];
        let nd = dims.len() as u64;
        let (_, mul, jit) = wide_exps();
        st.merge(ctx.run_indexed("wide-magnitudes", nd * 4 * 3 * t.pick(400, 6000), None, |i| {
            let (r, k, c) = dims[(i % nd) as usize];
            let (ta, tb) = ((i / nd) % 2 == 1, (i / nd / 2) % 2 == 1);
            let lead: Vec<usize> = [vec![], vec![2], vec![2, 1]][((i / nd / 4) % 3) as usize].clone();
            let z = mix(i ^ 0xC05 ^ ctx.seed.wrapping_mul(0x9E3779B1));
            let mut a = lead.clone();
            a.extend(if ta { [k, r] } else { [r, k] });
            let b: Vec<usize> = if tb { vec![c, k] } else { vec![k, c] };
            let cd = match (z >> 40) % 4 {
                0 => None,
                1 => Some(vec![c]),
                2 => Some(vec![r, c]),
                _ => Some(vec![1]),
            };
            let cfg = MatmulCfg { a, b, ta, tb, c: cd };
            let mut f = fwd(&cfg);
            // opposite or equal base exponents: the products stay near 2^(ba+bb)
            let ba = pick_base(z as u8, mul);
            let bb = match (z >> 8) % 3 {
                0 => -ba,
                1 => ba / 2,
                _ => pick_base((z >> 16) as u8, mul),
            };
            let (ja, jb) = (if (z >> 24) & 1 == 0 { 0 } else { jit }, if (z >> 25) & 1 == 0 { 0 } else { jit });
            f.leaves[0].vals = wide_vals(z, f.leaves[0].vals.len(), ba, ja, true);
            f.leaves[1].vals = wide_vals(z ^ 5, f.leaves[1].vals.len(), bb, jb, true);
            f.leaves[0].tracked = (z >> 26) & 1 == 1;
            if let Some(cl) = f.leaves.get_mut(2) {
                cl.vals = wide_vals(z ^ 6, cl.vals.len(), pick_base((z >> 32) as u8, mul), if (z >> 27) & 1 == 0 { 0 } else { jit }, true);
            }
            Some(f)
        }));
    }
    // results and operands with more than 2^16 elements (index arithmetic in narrow integer types)
    {
        let big: Vec<(Vec<usize>, Vec<usize>, bool, bool, Option<Vec<usize>>)> = vec![
            (vec![300, 2], vec![2, 300], false, false, None),
            (vec![2, 300], vec![300, 2], true, true, Some(vec![300])),
            (vec![70001], vec![70001], false, false, None),
            (vec![2, 40000], vec![40000, 2], false, false, Some(vec![2])),
            (vec![40000, 2], vec![2, 40000], true, true, None),
            (vec![3, 40000], vec![2, 40000], false, true, None),
            (vec![70000, 1], vec![1, 2], false, false, Some(vec![1, 2])),
            (vec![260, 1, 2], vec![2, 260], false, false, None),
            (vec![33000, 2, 1], vec![1, 2], false, false, None),
            (vec![2, 3], vec![33000, 3, 1], false, false, None),
        ];
        st.merge(ctx.run_indexed("more-than-65536-elements", big.len() as u64, None, |i| {
            let (a, b, ta, tb, c) = big[i as usize].clone();
            let cfg = MatmulCfg { a, b, ta, tb, c };
            let mut f = fwd(&cfg);
            f.leaves[0].vals = (0..f.leaves[0].vals.len()).map(|k| ((k % 251) as f64) - 125.0).collect();
            f.leaves[1].vals = (0..f.leaves[1].vals.len()).map(|k| ((k % 127) as f64) - 60.0).collect();
            Some(f)
        }));
    }
    let total = t.pick(80000u64, 400000);
    let mxs = t.pick(7usize, 10);
    let strat = move || (1..=mxs, 1..=mxs, 1..=mxs, 2..=4usize, 2..=4usize, any::<usize>(), any::<u64>()).prop_map(|(r, k, c, m, n, sel, vseed)| MmRecipe { r, k, c, m, n, sel, vseed }).boxed();
    st.merge(ctx.run_prop("random-sizes-and-values", total, strat, random_case));
    st
}

pub fn run(ctx: &Ctx) -> i32 {
    let mut st = ctx.run_replays(&dispatch);
    st.merge(campaigns(ctx));
    if ctx.tier == Tier::Thorough {
        st.merge(ctx.run_fuzz(20000, ctx.threads, &dispatch));
    }
    finish(
        ctx,
        st,
        "cases = matmul((a,ta),(b,tb),c) on fresh untracked leaves: every combination of (rows,inner,cols), transpose flags, leading-dimension pattern of each operand (including both-sided broadcast and different ranks), additive-term shape and the rank-1 forms is enumerated for small sizes and sampled beyond; inadmissible variants (inner mismatch at every rank combination, two vectors of different length, incompatible leading dimensions, additive term that cannot be broadcast) must panic. Oracle: triple-loop reference. Non-trivial = not all of rows/inner/cols are 1 and a transpose flag, a leading dimension or an additive term is present, or a refusal is demanded; distinct by (flags, operand shapes).",
        &[
            "integer data: exact, compared bitwise (sums stay below 2^22); sampled block uses multiples of 1/8 in [-3,3], also exact",
            "a rank-1 operand next to a rank>=2 operand is a one-row matrix; two rank-1 operands with a transpose flag are outside the property's domain and are not generated",
            "an additive term is only generated with last dimension = columns (or a single element), second-last in {absent,1,rows}, leading dimensions broadcastable to the result",
        ],
        json!({}),
    )
}
