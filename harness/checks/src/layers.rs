//! Layer stacks for C14 / C15: specs, deterministic initializers, spy wrappers that observe parameters
//! and gradients through `Layer::parameters()`, a user-defined flatten layer, and the reference forward.

use crate::exec::*;
use crate::vals::*;
use corgi::activation::{self, Activation};
use corgi::array::Array;
use corgi::initializer::Initializer;
use corgi::layer::conv::Conv;
use corgi::layer::dense::Dense;
use corgi::layer::Layer;
use corgi::numbers::Float;
use refmodel::ops::{self, Act, RefErr};
use refmodel::tensor::*;
use serde::{Deserialize, Serialize};
use std::cell::{Cell, RefCell};
use std::rc::Rc;

#[derive(Clone, Debug, Serialize, Deserialize, PartialEq)]
pub enum LayerSpec {
    Dense { input: usize, output: usize, act: Act },
    Conv { count: usize, depth: usize, fr: usize, fc: usize, sr: usize, sc: usize, act: Act },
    /// user-defined layer without parameters: [batch..., d, r, c] -> [batch, d*r*c] (or [d*r*c] unbatched)
    Flatten,
    /// user-defined activation written with `Array::op` on TWO operands, the input and an untracked constant
    /// (a one-element array holding 0.5): x -> x * 0.5, with the derivative supplied by the layer
    Gate,
}

pub fn make_act(a: Act) -> Option<Activation> {
    match a {
        Act::None => None,
        Act::Relu => Some(activation::relu()),
        Act::Sigmoid => Some(activation::sigmoid()),
        Act::Softmax => Some(activation::softmax()),
    }
}

/// an initializer that hands out a fixed stream of values (parameters are chosen by the generator)
pub fn stream_initializer(vals: Vec<f64>) -> Initializer {
    let i = Cell::new(0usize);
    Box::new(move |_| {
        let k = i.get();
        i.set(k + 1);
        vals[k % vals.len()] as Float
    })
}

pub struct Gate;
impl Layer for Gate {
    fn forward(&self, input: Array) -> Array {
        use corgi::array::{BackwardOp, ForwardOp};
        let k = Array::from(vec![0.5 as Float]);
        let fw: ForwardOp = Rc::new(|a: &[&Array]| Array::from((a[0].dimensions().to_vec(), a[0].values().iter().map(|v| v * a[1].values()[0]).collect::<Vec<Float>>())));
        let bw: BackwardOp = Rc::new(|c: &[Array], t: &[bool], d: &Array| {
            let s = c[1].values()[0];
            vec![if t[0] { Some(Array::from((d.dimensions().to_vec(), d.values().iter().map(|v| v * s).collect::<Vec<Float>>()))) } else { None }, None]
        });
        Array::op(&[&input, &k], fw, Some(bw))
    }
    fn parameters(&mut self) -> Vec<&mut Array> {
        vec![]
    }
}

pub struct Flatten;
impl Layer for Flatten {
    fn forward(&self, input: Array) -> Array {
        let d = input.dimensions().to_vec();
        let n = d.len();
        let inner: usize = d[n.saturating_sub(3)..].iter().product();
        if n <= 3 {
            input.reshape(vec![inner])
        } else {
            let lead: usize = d[..n - 3].iter().product();
            input.reshape(vec![lead, inner])
        }
    }
    fn parameters(&mut self) -> Vec<&mut Array> {
        vec![]
    }
}

/// (dims, values, gradient values) of one parameter at the time `parameters()` was called
pub type ParamSnap = (Vec<usize>, Vec<f64>, Option<(Vec<usize>, Vec<f64>)>);
pub type SnapLog = Rc<RefCell<Vec<(usize, Vec<ParamSnap>)>>>;

pub struct Spy<'a> {
    pub inner: Box<dyn Layer + 'a>,
    pub index: usize,
    pub log: SnapLog,
}
impl<'a> Layer for Spy<'a> {
    fn forward(&self, input: Array) -> Array {
        self.inner.forward(input)
    }
    fn parameters(&mut self) -> Vec<&mut Array> {
        let ps = self.inner.parameters();
        let snap: Vec<ParamSnap> = ps.iter().map(|p| (p.dimensions().to_vec(), f64s(p.values()), p.gradient().as_ref().map(|g| (g.dimensions().to_vec(), f64s(g.values()))))).collect();
        self.log.borrow_mut().push((self.index, snap));
        ps
    }
}

pub fn n_params(s: &LayerSpec) -> usize {
    match s {
        LayerSpec::Dense { input, output, .. } => input * output + output,
        LayerSpec::Conv { count, depth, fr, fc, .. } => count * depth * fr * fc + count,
        LayerSpec::Flatten | LayerSpec::Gate => 0,
    }
}

/// Build the corgi layers of a stack. `acts` must outlive the returned layers (Dense borrows its activation).
pub fn build_layers<'a>(specs: &[LayerSpec], acts: &'a [Option<Activation>], pseed: u64, kind: VKind, log: Option<&SnapLog>) -> Vec<Box<dyn Layer + 'a>> {
    build_layers_scaled(specs, acts, pseed, kind, 1.0, log)
}

/// as `build_layers`, with every generated parameter multiplied by `scale` (large logits)
pub fn build_layers_scaled<'a>(specs: &[LayerSpec], acts: &'a [Option<Activation>], pseed: u64, kind: VKind, scale: f64, log: Option<&SnapLog>) -> Vec<Box<dyn Layer + 'a>> {
    let mut out: Vec<Box<dyn Layer + 'a>> = vec![];
    for (i, s) in specs.iter().enumerate() {
        let init = stream_initializer(gen_vals(pseed.wrapping_add(i as u64 * 7919), n_params(s).max(1), kind).into_iter().map(|v| v * scale).collect());
        let l: Box<dyn Layer + 'a> = match s {
            LayerSpec::Dense { input, output, .. } => Box::new(Dense::new(*input, *output, &init, acts[i].as_ref())),
            LayerSpec::Conv { count, depth, fr, fc, sr, sc, act } => Box::new(Conv::new((*count, *depth, *fr, *fc), (*sr, *sc), &init, make_act(*act))),
            LayerSpec::Flatten => Box::new(Flatten),
            LayerSpec::Gate => Box::new(Gate),
        };
        out.push(match log {
            Some(lg) => Box::new(Spy { inner: l, index: i, log: Rc::clone(lg) }),
            None => l,
        });
    }
    out
}

/// as `build_layers`, every parameter of every layer initialised to the same constant (zero / constant initialisation:
/// parameters of equal shape are then EQUAL arrays)
pub fn build_layers_const<'a>(specs: &[LayerSpec], acts: &'a [Option<Activation>], c: f64, log: Option<&SnapLog>) -> Vec<Box<dyn Layer + 'a>> {
    let mut out: Vec<Box<dyn Layer + 'a>> = vec![];
    for (i, s) in specs.iter().enumerate() {
        let init = stream_initializer(vec![c]);
        let l: Box<dyn Layer + 'a> = match s {
            LayerSpec::Dense { input, output, .. } => Box::new(Dense::new(*input, *output, &init, acts[i].as_ref())),
            LayerSpec::Conv { count, depth, fr, fc, sr, sc, act } => Box::new(Conv::new((*count, *depth, *fr, *fc), (*sr, *sc), &init, make_act(*act))),
            LayerSpec::Flatten => Box::new(Flatten),
            LayerSpec::Gate => Box::new(Gate),
        };
        out.push(match log {
            Some(lg) => Box::new(Spy { inner: l, index: i, log: Rc::clone(lg) }),
            None => l,
        });
    }
    out
}

pub fn acts_for(specs: &[LayerSpec]) -> Vec<Option<Activation>> {
    specs
        .iter()
        .map(|s| match s {
            LayerSpec::Dense { act, .. } => make_act(*act),
            _ => None,
        })
        .collect()
}

/// reference forward of one layer on parameter tensors
pub fn ref_layer(s: &LayerSpec, params: &[T], x: &T) -> Result<T, RefErr> {
    match s {
        LayerSpec::Dense { act, .. } => ops::dense(x, &params[0], &params[1], *act),
        LayerSpec::Conv { sr, sc, act, .. } => ops::conv_layer(x, &params[0], &params[1], *sr, *sc, *act),
        LayerSpec::Gate => Ok(ops::scale(x, 0.5)),
        LayerSpec::Flatten => {
            let d = &x.dims;
            let n = d.len();
            let inner: usize = d[n.saturating_sub(3)..].iter().product();
            if n <= 3 {
                ops::reshape(x, &[inner])
            } else {
                ops::reshape(x, &[numel(&d[..n - 3]), inner])
            }
        }
    }
}

/// the input shape a stack expects, for a given batch size (0 = unbatched) and image size
pub fn input_dims(specs: &[LayerSpec], batch: usize, rows: usize, cols: usize) -> Vec<usize> {
    let mut d = match &specs[0] {
        LayerSpec::Dense { input, .. } => vec![*input],
        LayerSpec::Conv { depth, .. } => vec![*depth, rows, cols],
        LayerSpec::Flatten | LayerSpec::Gate => vec![1, rows, cols],
    };
    if batch > 0 {
        d.insert(0, batch);
    }
    d
}

#[derive(Clone, Copy, Debug, Serialize, Deserialize, PartialEq)]
pub enum CostKind {
    Mse,
    CrossEntropy,
}
pub fn ref_cost(k: CostKind, out: &T, target: &T) -> Result<T, RefErr> {
    match k {
        CostKind::Mse => ops::mse(out, target),
        CostKind::CrossEntropy => ops::cross_entropy(out, target),
    }
}
pub fn make_cost(k: CostKind) -> corgi::cost::CostFunction {
    match k {
        CostKind::Mse => corgi::cost::mse(),
        CostKind::CrossEntropy => corgi::cost::cross_entropy(),
    }
}

/// parameters of every layer as observed through `Layer::parameters()`
pub fn read_params(layers: &mut [Box<dyn Layer + '_>]) -> Vec<Vec<(Vec<usize>, Vec<f64>)>> {
    layers.iter_mut().map(|l| l.parameters().iter().map(|p| (p.dimensions().to_vec(), f64s(p.values()))).collect()).collect()
}

/// a consistent stack chosen by selector bytes: dense chains, conv chains, conv -> flatten -> dense
pub fn make_stack(b: &[u8; 8], last_act: Option<Act>) -> (Vec<LayerSpec>, usize, usize) {
    let acts = [Act::None, Act::Relu, Act::Sigmoid, Act::Softmax];
    let act = |x: u8| acts[(x % 4) as usize];
    let sz = |x: u8, m: usize| 1 + (x as usize * m >> 8);
    let mut specs = vec![];
    let (mut rows, mut cols) = (1, 1);
    match b[0] % 5 {
        0 | 1 => {
            // 1-3 dense layers
            let n = 1 + (b[1] % 3) as usize;
            let mut width = sz(b[2], 5);
            for i in 0..n {
                let out = sz(b[3 + i], 5);
                specs.push(LayerSpec::Dense { input: width, output: out, act: act(b[5].wrapping_add(i as u8 * 3)) });
                width = out;
            }
        }
        2 | 3 => {
            // 1-2 conv layers
            rows = 2 + (b[1] as usize % 4);
            cols = 2 + (b[2] as usize % 4);
            let depth = 1 + (b[3] as usize % 2);
            let c1 = 1 + (b[4] as usize % 3);
            let (fr, fc) = (sz(b[5], rows.min(3)), sz(b[6], cols.min(3)));
            let (sr, sc) = (1 + (b[7] as usize % 2), 1 + ((b[7] >> 1) as usize % 2));
            specs.push(LayerSpec::Conv { count: c1, depth, fr, fc, sr, sc, act: act(b[5] >> 2) });
            let (or, oc) = ((rows - fr) / sr + 1, (cols - fc) / sc + 1);
            if b[0] % 5 == 3 {
                let (fr2, fc2) = (sz(b[6] >> 1, or.min(2)), sz(b[5] >> 1, oc.min(2)));
                specs.push(LayerSpec::Conv { count: 1 + (b[4] as usize >> 2) % 2, depth: c1, fr: fr2, fc: fc2, sr: 1, sc: 1, act: act(b[6] >> 3) });
            }
        }
        _ => {
            // conv -> flatten -> dense
            rows = 2 + (b[1] as usize % 3);
            cols = 2 + (b[2] as usize % 3);
            let depth = 1 + (b[3] as usize % 2);
            let c1 = 1 + (b[4] as usize % 2);
            let (fr, fc) = (sz(b[5], rows.min(2)), sz(b[6], cols.min(2)));
            specs.push(LayerSpec::Conv { count: c1, depth, fr, fc, sr: 1, sc: 1, act: act(b[5] >> 2) });
            let (or, oc) = (rows - fr + 1, cols - fc + 1);
            specs.push(LayerSpec::Flatten);
            specs.push(LayerSpec::Dense { input: c1 * or * oc, output: sz(b[7], 4), act: act(b[7] >> 3) });
        }
    }
    if let Some(a) = last_act {
        match specs.last_mut().unwrap() {
            LayerSpec::Dense { act, .. } | LayerSpec::Conv { act, .. } => *act = a,
            _ => {}
        }
    }
    (specs, rows, cols)
}
