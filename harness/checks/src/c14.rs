//! C14 Each training iteration steps parameters along the true current-loss gradient.

use crate::cmp::*;
use crate::exec::*;
use crate::layers::*;
use crate::runner::*;
use crate::vals::*;
use corgi::layer::Layer;
use corgi::model::Model;
use corgi::optimizer::gd::GradientDescent;
use proptest::prelude::*;
use refmodel::ops::{self, Act};
use refmodel::tensor::*;
use serde::{Deserialize, Serialize};
use serde_json::{json, Value};
use std::cell::RefCell;
use std::rc::Rc;

#[derive(Clone, Debug, Serialize, Deserialize)]
pub struct Iter {
    /// 0 = unbatched
    pub batch: usize,
    pub xseed: u64,
    /// 0: generated target; 1: target = current output + a perturbation whose entries cancel (gradients that sum to zero)
    pub target_mode: u8,
    /// an inference-only forward on another input before this iteration
    pub extra_forward: bool,
    /// call model.update() a second time right after this iteration's update (it finds no gradients and must be a no-op)
    pub probe_forward_after: bool,
}

#[derive(Clone, Debug, Serialize, Deserialize)]
pub struct Case14 {
    pub specs: Vec<LayerSpec>,
    pub rows: usize,
    pub cols: usize,
    pub cost: CostKind,
    pub lr: f64,
    pub pseed: u64,
    pub int_data: bool,
    pub iters: Vec<Iter>,
    /// Some(c): every parameter starts at the constant c (equal-shaped parameters are equal arrays)
    #[serde(default)]
    pub const_init: Option<f64>,
}

/// loss and its gradient w.r.t. every parameter, from the observed parameters and the batch
fn reference_step(specs: &[LayerSpec], params: &[Vec<(Vec<usize>, Vec<f64>)>], x: &T, target: &T, target_is_model_of: bool, cost: CostKind) -> Result<(Dual, Vec<Vec<T>>), String> {
    let mut dir = 0;
    let mut pts: Vec<Vec<T>> = vec![];
    for ps in params {
        let mut v = vec![];
        for (d, vals) in ps {
            v.push(T::from_f64(d, vals).with_fresh_dirs(dir));
            dir += vals.len();
        }
        pts.push(v);
    }
    let mut cur = x.clone();
    for (s, p) in specs.iter().zip(&pts) {
        cur = ref_layer(s, p, &cur).map_err(|e| format!("{:?}", e))?;
    }
    // the target is either data or the (parameter-dependent, tracked) output of the same stack on a second batch
    let tt;
    let target = if target_is_model_of {
        let mut t = target.clone();
        for (s, p) in specs.iter().zip(&pts) {
            t = ref_layer(s, p, &t).map_err(|e| format!("{:?}", e))?;
        }
        tt = t;
        &tt
    } else {
        target
    };
    let c = ref_cost(cost, &cur, target).map_err(|e| format!("{:?}", e))?;
    Ok((ops::sum_all(&c), pts))
}

struct RunInfo {
    why: Option<&'static str>,
    truncated_at: Option<usize>,
    nonzero_steps: usize,
    zero_sum_grads: usize,
    batch_sizes: Vec<usize>,
}

impl Case14 {
    fn check(&self) -> Result<RunInfo, (String, String)> {
        let e = |k: &str, d: String| Err((k.to_string(), d));
        let acts = acts_for(&self.specs);
        let kind = if self.int_data { VKind::Int } else { VKind::Small };
        let log: SnapLog = Rc::new(RefCell::new(vec![]));
        let mut layers = match guarded(|| match self.const_init {
            Some(c) => build_layers_const(&self.specs, &acts, c, Some(&log)),
            None => build_layers(&self.specs, &acts, self.pseed, kind, Some(&log)),
        }) {
            Ok(l) => l,
            Err(p) => return e("unexpected-panic", format!("constructing the layers panicked: {}", p)),
        };
        let cf = make_cost(self.cost);
        let gd = GradientDescent::new(fl(self.lr));
        let refs: Vec<&mut dyn Layer> = layers.iter_mut().map(|b| &mut **b as &mut dyn Layer).collect();
        let mut model = Model::new(refs, &gd, &cf);
        let nl = self.specs.len();
        let mut info = RunInfo { why: None, truncated_at: None, nonzero_steps: 0, zero_sum_grads: 0, batch_sizes: vec![] };
        // position in the spy log at which each iteration's update call starts
        let mut snap_of_iter: Vec<usize> = vec![];
        // one entry per iteration: (x, target or the second batch whose output is the target, loss, target is a model output)
        let mut batches: Vec<(T, T, f64, bool)> = vec![];
        let desc = |it: usize| format!("iteration {} of {} (stack {:?}, cost {:?}, lr {}, batches {:?})", it, self.iters.len(), self.specs, self.cost, self.lr, self.iters.iter().map(|i| i.batch).collect::<Vec<_>>());
        for (it, spec) in self.iters.iter().enumerate() {
            let xd = input_dims(&self.specs, spec.batch, self.rows, self.cols);
            if spec.extra_forward {
                let xo = gen_vals(spec.xseed ^ 0xABCD, numel(&xd), kind);
                if let Err(p) = guarded(|| drop(model.forward(arr(&xd, &xo)))) {
                    return e("unexpected-panic", format!("{}: inference-only forward panicked: {}", desc(it), p));
                }
            }
            // some batches are all zeros: the pre-activations are the biases, so whole relu layers can be inactive
            let xv = if spec.xseed % 6 == 0 { vec![0.0; numel(&xd)] } else { gen_vals(spec.xseed, numel(&xd), kind) };
            // target mode 2: the target is the tracked output of the same model on a second batch, so every
            // parameter is reached twice by the pass (once through the output, once through the target)
            let model_target = spec.target_mode == 2 && self.cost == CostKind::Mse;
            let x2v = gen_vals(spec.xseed ^ 0x2222, numel(&xd), kind);
            let model_t = if model_target {
                match guarded(|| model.forward(arr(&xd, &x2v))) {
                    Ok(o) => Some(o),
                    Err(p) => return e("unexpected-panic", format!("{}: forward on the second batch panicked: {}", desc(it), p)),
                }
            } else {
                None
            };
            let out = match guarded(|| model.forward(arr(&xd, &xv))) {
                Ok(o) => o,
                Err(p) => return e("unexpected-panic", format!("{}: forward panicked: {}", desc(it), p)),
            };
            let od = out.dimensions().to_vec();
            let ov = f64s(out.values());
            let n = ov.len();
            let tv: Vec<f64> = if spec.target_mode == 1 && self.cost == CostKind::Mse {
                // perturbation entries cancel within each output row
                let l = *od.last().unwrap();
                (0..n).map(|j| ov[j] + if l < 2 || (l % 2 == 1 && j % l == l - 1) { 0.0 } else if (j % l) % 2 == 0 { 1.0 } else { -1.0 }).collect()
            } else {
                gen_vals(spec.xseed ^ 0x7777, n, if self.cost == CostKind::Mse { kind } else { VKind::Pos })
            };
            drop(out);
            let target_arr = match model_t {
                Some(t) => t,
                None => arr(&od, &tv),
            };
            let loss = match guarded(|| model.backward(target_arr)) {
                Ok(l) => l as f64,
                Err(p) => return e("unexpected-panic", format!("{}: backward panicked: {}", desc(it), p)),
            };
            snap_of_iter.push(log.borrow().len());
            if let Err(p) = guarded(|| model.update()) {
                return e("unexpected-panic", format!("{}: update panicked: {}", desc(it), p));
            }
            if spec.probe_forward_after {
                // a second update right away finds no gradients and must change nothing
                if let Err(p) = guarded(|| model.update()) {
                    return e("unexpected-panic", format!("{}: a second update without gradients panicked: {}", desc(it), p));
                }
            }
            batches.push(if model_target { (T::from_f64(&xd, &xv), T::from_f64(&xd, &x2v), loss, true) } else { (T::from_f64(&xd, &xv), T::from_f64(&od, &tv), loss, false) });
            info.batch_sizes.push(spec.batch);
        }
        // a final gradient-free update exposes the last parameters
        snap_of_iter.push(log.borrow().len());
        if let Err(p) = guarded(|| model.update()) {
            return e("unexpected-panic", format!("final update panicked: {}", p));
        }
        drop(model);
        let lg = log.borrow();
        // the snapshot of an update call = for every layer the FIRST entry it logged after the call started (an
        // implementation may ask the layers for their parameters more than once per update)
        let mut snaps: Vec<Vec<&Vec<ParamSnap>>> = vec![];
        for &start in &snap_of_iter {
            let mut per_layer: Vec<Option<&Vec<ParamSnap>>> = vec![None; nl];
            for (idx, sn) in lg.iter().skip(start) {
                if per_layer[*idx].is_none() {
                    per_layer[*idx] = Some(sn);
                }
                if per_layer.iter().all(|x| x.is_some()) {
                    break;
                }
            }
            if per_layer.iter().any(|x| x.is_none()) {
                return Err(("discard".into(), "an update call did not ask every layer for its parameters".into()));
            }
            snaps.push(per_layer.into_iter().map(|x| x.unwrap()).collect());
        }
        let snap_at = |it: usize| -> Vec<&Vec<ParamSnap>> { snaps[it].clone() };
        for it in 0..self.iters.len() {
            let cur = snap_at(it);
            let next = snap_at(it + 1);
            let params: Vec<Vec<(Vec<usize>, Vec<f64>)>> = cur.iter().map(|l| l.iter().map(|p| (p.0.clone(), p.1.clone())).collect()).collect();
            let (x, target, loss, target_is_model_of) = &batches[it];
            let kinks = ops::kink_count();
            let (lref, pts) = match reference_step(&self.specs, &params, x, target, *target_is_model_of, self.cost) {
                Ok(r) => r,
                Err(_) => return Err(("discard".into(), "reference could not evaluate the stack".into())),
            };
            // a diverging run leaves the well-conditioned domain: judge the iterations before that point only
            let ndirs: usize = params.iter().map(|l| l.iter().map(|p| p.1.len()).sum::<usize>()).sum();
            let exact_stack = self.int_data && self.specs.iter().all(|s| matches!(s, LayerSpec::Dense { act: Act::None | Act::Relu, .. } | LayerSpec::Conv { act: Act::None | Act::Relu, .. } | LayerSpec::Flatten));
            let exact_now = exact_stack && params.iter().all(|l| l.iter().all(|p| p.1.iter().all(|v| refmodel::model::is_exact_value(*v)))) && x.vals.iter().all(|v| refmodel::model::is_exact_value(v.v));
            let why = if ops::kink_count() > kinks && !exact_now {
                Some("a relu input is zero only up to rounding")
            } else if !lref.v.is_finite() || !lref.vm.is_finite() {
                Some("non-finite reference loss")
            } else if lref.vm > 1e8 {
                Some("loss magnitude above 1e8")
            } else if (0..ndirs).any(|i| !lref.dirm(i).is_finite() || lref.dirm(i) > 1e10) {
                Some("gradient magnitude above 1e10")
            } else if params.iter().any(|l| l.iter().any(|p| p.1.iter().any(|v| v.abs() > 1e4))) {
                Some("parameters above 1e4")
            } else {
                None
            };
            let ill = why.is_some();
            info.why = why;
            if ill {
                info.truncated_at = Some(it);
                break;
            }
            if !close(*loss, lref.v, lref.vm, false) {
                return e("loss", format!("{}: Model::backward returned loss {:?}, the loss of the current parameters on the current batch is {:?}", desc(it), loss, lref.v));
            }
            let mut dir = 0;
            for l in 0..nl {
                for (pi, p) in cur[l].iter().enumerate() {
                    let n = p.1.len();
                    let gref: Vec<f64> = (0..n).map(|i| lref.dir(dir + i)).collect();
                    let gmag: Vec<f64> = (0..n).map(|i| lref.dirm(dir + i)).collect();
                    dir += n;
                    let _ = &pts;
                    let what = format!("{}: layer {} parameter {} (dims {:?})", desc(it), l, pi, p.0);
                    // the gradient seen by the optimizer
                    match &p.2 {
                        None => return e("gradient-missing", format!("{}: no gradient at update time", what)),
                        Some((gd_, gv)) => {
                            if gd_ != &p.0 {
                                return e("gradient-shape", format!("{}: gradient dimensions {:?}", what, gd_));
                            }
                            for i in 0..n {
                                if !close(gv[i], gref[i], gmag[i], false) {
                                    return e("gradient", format!("{}: gradient at update time {:?}, exact gradient of the current loss {:?} (element {}, difference {:e}, magnitude {:e})", what, gv, gref, i, gv[i] - gref[i], gmag[i]));
                                }
                            }
                            if gv.iter().any(|g| *g != 0.0) {
                                info.nonzero_steps += 1;
                                if gv.iter().sum::<f64>() == 0.0 {
                                    info.zero_sum_grads += 1;
                                }
                            }
                        }
                    }
                    // the step
                    let np = &next[l][pi];
                    if np.0 != p.0 {
                        return e("step-shape", format!("{}: dimensions after the update {:?}", what, np.0));
                    }
                    for i in 0..n {
                        let want = p.1[i] - self.lr * gref[i];
                        if !close(np.1[i], want, p.1[i].abs() + self.lr.abs() * gmag[i], false) {
                            return e("step", format!("{}: element {} became {:?}, expected old - lr*grad = {:?} (old {:?}, exact gradient {:?})", what, i, np.1[i], want, p.1[i], gref[i]));
                        }
                    }
                }
            }
        }
        Ok(info)
    }
}

impl CaseKind for Case14 {
    const KIND: &'static str = "c14";
    fn size(&self) -> usize {
        self.specs.iter().map(n_params).sum::<usize>() + self.iters.len() * 20 + self.iters.iter().map(|i| i.batch).sum::<usize>()
    }
    fn sample(&self) -> Value {
        json!({"stack": format!("{:?}", self.specs), "cost": format!("{:?}", self.cost), "lr": self.lr, "batch_sizes": self.iters.iter().map(|i| i.batch).collect::<Vec<_>>(), "image": [self.rows, self.cols]})
    }
    fn run(&self) -> Outcome {
        let mut k = KeyHasher::new("c14");
        k.s(&format!("{:?}{:?}", self.specs, self.cost)).u((self.lr * 1024.0) as i64 as u64).b(self.int_data);
        for i in &self.iters {
            k.u(i.batch as u64).u(i.target_mode as u64).b(i.extra_forward);
        }
        let mut classes: Vec<String> = vec![format!("iterations:{}", self.iters.len().min(9)), format!("cost:{:?}", self.cost), format!("layers:{}", self.specs.len())];
        for s in &self.specs {
            classes.push(match s {
                LayerSpec::Dense { .. } => "layer:dense".into(),
                LayerSpec::Conv { .. } => "layer:conv".into(),
                LayerSpec::Flatten => "layer:flatten".into(),
                LayerSpec::Gate => "layer:user-defined-activation".into(),
            });
        }
        classes.sort();
        classes.dedup();
        match self.check() {
            Ok(info) => {
                let mut b = info.batch_sizes.clone();
                b.sort();
                b.dedup();
                if b.len() > 1 {
                    classes.push("feature:mixed-batch-sizes".into());
                }
                if let Some(t) = info.truncated_at {
                    classes.push("truncated:left-the-well-conditioned-domain".into());
                    if t == 0 {
                        return Outcome::discard(&format!("the first iteration is already outside the well-conditioned domain: {}", info.why.unwrap_or("?")));
                    }
                }
                if info.zero_sum_grads > 0 {
                    classes.push("feature:cancelling-gradient".into());
                }
                let judged = info.truncated_at.unwrap_or(self.iters.len());
                Outcome::pass(judged >= 2 && info.nonzero_steps > 0 && self.lr != 0.0, k.finish(), classes)
            }
            Err((kind, d)) if kind == "discard" => Outcome::discard(&d),
            Err((kind, d)) if kind == "internal" => Outcome::internal(d),
            Err((kind, d)) => Outcome::fail(&kind, kind.clone(), d, k.finish(), classes),
        }
    }
}

pub fn dispatch(kind: &str, v: &Value) -> Option<Outcome> {
    match kind {
        "c14" => serde_json::from_value::<Case14>(v.clone()).ok().map(|c| c.run()),
        "model-route" => serde_json::from_value::<crate::modelroute::ModelRouteCase>(v.clone()).ok().map(|c| c.run()),
        _ => None,
    }
}

const LRS: [f64; 6] = [0.5, 0.125, 1.0, 0.03125, -0.25, 0.0];

pub fn run(ctx: &Ctx) -> i32 {
    let mut st = ctx.run_replays(&dispatch);
    let t = ctx.tier;
    let (total, max_iters, max_batch) = t.pick((100000u64, 5usize, 3usize), (400000, 20, 5));
    let strat = move || {
        (
            any::<[u8; 8]>(),
            prop::collection::vec((0..=max_batch, any::<u64>(), 0..4u8, any::<bool>()), 1..=max_iters),
            any::<u64>(),
            0..8usize,
            any::<bool>(),
            any::<bool>(),
        )
            .boxed()
    };
    st.merge(ctx.run_prop("training-runs", total, strat, |(b, its, pseed, lri, ce, int_data)| {
        let upd = *pseed;
        let cost = if *ce { CostKind::CrossEntropy } else { CostKind::Mse };
        let (specs, rows, cols) = make_stack(b, if *ce { Some(if b[7] & 1 == 0 { Act::Softmax } else { Act::Sigmoid }) } else { None });
        let iters = its.iter().map(|(batch, xseed, tm, ef)| Iter { batch: *batch, xseed: *xseed, target_mode: if *tm == 0 { 1 } else if *tm == 3 { 2 } else { 0 }, extra_forward: *ef, probe_forward_after: (xseed ^ upd) % 5 == 0 }).collect();
        Some(Case14 { specs, rows, cols, cost, lr: LRS[*lri % LRS.len()], pseed: *pseed, int_data: *int_data && !*ce, iters, const_init: None })
    }));
    // structured: a linear dense layer with integer data and targets = output + cancelling perturbation
    st.merge(ctx.run_indexed("linear-dense-cancelling-gradients", 4 * 4 * 4 * 3, None, |i| {
        let input = 1 + (i % 4) as usize;
        let output = 2 + ((i / 4) % 4) as usize;
        let batch = ((i / 16) % 4) as usize;
        let lr = [0.5, 0.25, 1.0][((i / 64) % 3) as usize];
        let iters = (0..4).map(|k| Iter { batch: if k == 2 { (batch + 1) % 4 } else { batch }, xseed: i * 10 + k, target_mode: (k % 2 == 0) as u8, extra_forward: k == 1, probe_forward_after: k == 0 && i % 2 == 0 }).collect();
        Some(Case14 { specs: vec![LayerSpec::Dense { input, output, act: Act::None }], rows: 1, cols: 1, cost: CostKind::Mse, lr, pseed: i + 3, int_data: true, iters, const_init: None })
    }));
    // two stacked conv layers, the second with every filter shape 1..3 x 1..3 and stride 1..2 x 1..2 (windows that
    // overlap along both axes, one axis, or not at all) and at least two windows along each axis
    st.merge(ctx.run_indexed("stacked-conv-all-filter-and-stride-shapes", 9 * 4 * 2 * 2 * 2, None, |i| {
        let (fr2, fc2) = (1 + (i % 3) as usize, 1 + ((i / 3) % 3) as usize);
        let (sr2, sc2) = (1 + ((i / 9) % 2) as usize, 1 + ((i / 18) % 2) as usize);
        let f1 = 1 + ((i / 36) % 2) as usize;
        let batch = if (i / 72) % 2 == 0 { 0 } else { 2 };
        let act = if (i / 144) % 2 == 0 { Act::None } else { Act::Sigmoid };
        // the first layer's output has (fr2 + sr2) x (fc2 + sc2 + 1) positions: two windows down, two or three across
        let (rows, cols) = (fr2 + sr2 + f1 - 1, fc2 + sc2 + 1 + f1 - 1);
        let specs = vec![LayerSpec::Conv { count: 2, depth: 1, fr: f1, fc: f1, sr: 1, sc: 1, act }, LayerSpec::Conv { count: 1, depth: 2, fr: fr2, fc: fc2, sr: sr2, sc: sc2, act: Act::None }];
        let iters = (0..3).map(|k| Iter { batch: if k == 1 { batch } else { 2 - batch }, xseed: i * 10 + k, target_mode: (k % 2) as u8, extra_forward: false, probe_forward_after: false }).collect();
        Some(Case14 { specs, rows, cols, cost: CostKind::Mse, lr: [0.5, 0.125][(i % 2) as usize], pseed: i + 11, int_data: act == Act::None, iters, const_init: None })
    }));
    // a user-defined activation (Array::op on the input and an untracked constant) between built-in layers
    st.merge(ctx.run_indexed("user-defined-activation-layers", 3 * 3 * 2, None, |i| {
        let specs = match i % 3 {
            0 => vec![LayerSpec::Dense { input: 2, output: 3, act: Act::None }, LayerSpec::Gate, LayerSpec::Dense { input: 3, output: 2, act: Act::None }],
            1 => vec![LayerSpec::Dense { input: 3, output: 2, act: Act::Sigmoid }, LayerSpec::Gate],
            _ => vec![LayerSpec::Conv { count: 2, depth: 1, fr: 2, fc: 2, sr: 1, sc: 1, act: Act::None }, LayerSpec::Gate, LayerSpec::Conv { count: 1, depth: 2, fr: 1, fc: 2, sr: 1, sc: 1, act: Act::None }],
        };
        let batch = [0usize, 1, 3][((i / 3) % 3) as usize];
        let iters = (0..3).map(|k| Iter { batch: if k == 2 { 2 } else { batch }, xseed: i * 10 + k + 1, target_mode: (k % 2) as u8, extra_forward: false, probe_forward_after: false }).collect();
        Some(Case14 { specs, rows: 3, cols: 4, cost: CostKind::Mse, lr: 0.25, pseed: i + 21, int_data: (i / 9) % 2 == 0, iters, const_init: None })
    }));
    // constant initialisation: parameters of equal shape in different layers are equal arrays
    st.merge(ctx.run_indexed("constant-initialisation", 4 * 3 * 2, None, |i| {
        let specs = match i % 4 {
            0 => vec![LayerSpec::Dense { input: 3, output: 3, act: Act::Sigmoid }, LayerSpec::Dense { input: 3, output: 3, act: Act::None }],
            1 => vec![LayerSpec::Dense { input: 2, output: 2, act: Act::None }, LayerSpec::Dense { input: 2, output: 2, act: Act::Sigmoid }, LayerSpec::Dense { input: 2, output: 2, act: Act::None }],
            2 => vec![LayerSpec::Conv { count: 1, depth: 1, fr: 2, fc: 2, sr: 1, sc: 1, act: Act::None }, LayerSpec::Conv { count: 1, depth: 1, fr: 2, fc: 2, sr: 1, sc: 1, act: Act::None }],
            _ => vec![LayerSpec::Dense { input: 1, output: 1, act: Act::Sigmoid }, LayerSpec::Dense { input: 1, output: 1, act: Act::None }],
        };
        let c = [0.5, 0.0, -0.25][((i / 4) % 3) as usize];
        let batch = if (i / 12) % 2 == 0 { 2 } else { 0 };
        let iters = (0..3).map(|k| Iter { batch, xseed: i * 10 + k + 1, target_mode: 0, extra_forward: false, probe_forward_after: false }).collect();
        Some(Case14 { specs, rows: 4, cols: 4, cost: CostKind::Mse, lr: 0.25, pseed: i, int_data: false, iters, const_init: Some(c) })
    }));
    // the target is the tracked output of the same model on a second batch: every parameter has two consumers in one pass
    st.merge(ctx.run_indexed("target-is-the-models-own-output", 4 * 3 * 2 * 2, None, |i| {
        let specs = match i % 4 {
            0 => vec![LayerSpec::Dense { input: 2, output: 2, act: Act::None }],
            1 => vec![LayerSpec::Dense { input: 3, output: 2, act: Act::Sigmoid }, LayerSpec::Dense { input: 2, output: 2, act: Act::None }],
            2 => vec![LayerSpec::Conv { count: 2, depth: 1, fr: 2, fc: 2, sr: 1, sc: 1, act: Act::None }],
            _ => vec![LayerSpec::Dense { input: 1, output: 3, act: Act::Relu }, LayerSpec::Dense { input: 3, output: 1, act: Act::Sigmoid }],
        };
        let batch = [2usize, 3, 0][((i / 4) % 3) as usize];
        let lr = [0.5, 0.125][((i / 12) % 2) as usize];
        let int_data = (i / 24) % 2 == 0;
        let iters = (0..3).map(|k| Iter { batch, xseed: i * 10 + k + 1, target_mode: if k == 1 { 0 } else { 2 }, extra_forward: false, probe_forward_after: false }).collect();
        Some(Case14 { specs, rows: 3, cols: 3, cost: CostKind::Mse, lr, pseed: i + 5, int_data, iters, const_init: None })
    }));
    {
        let rc = crate::modelroute::route_cases("c14", ctx.seed, t == Tier::Thorough);
        st.merge(ctx.run_indexed("through-model-vs-by-hand", rc.len() as u64, None, |i| Some(rc[i as usize].clone())));
    }
    finish(
        ctx,
        st,
        "cases = training runs of one long-lived Model: a generated layer stack (1-3 dense; 1-2 conv with overlapping windows in later layers; conv -> flatten -> dense), activations none/relu/sigmoid/softmax, mse or cross-entropy, a learning rate (also 0 and negative), 1-5 (quick) / 1-20 (thorough) iterations each with its own batch size (unbatched, 1, >1: sizes change inside a run), generated or output-relative targets (perturbations that cancel, so gradients sum to zero), optional inference-only forward calls in between. Every layer is wrapped in a spy Layer whose parameters() (called once per Model::update) snapshots parameters and gradients. Oracle per iteration, from the OBSERVED parameters P_t and the batch only: the returned loss equals the reference loss, the gradients seen by the optimizer equal the exact dual-number gradient of that loss, and P_{t+1} = P_t - lr*grad. Non-trivial = >= 2 iterations with a non-zero gradient and lr != 0; distinct by (stack, cost, lr, batch-size sequence, target modes).",
        &["tolerance: |got-ref| <= rtol*(|ref|+magnitude)+atol with rtol 1e-9 (f64); magnitudes from the dual-number evaluation", "parameters are chosen through a deterministic initializer and read back through Layer::parameters(); corgi's own random initializer is never an oracle input", "cross-entropy only with a softmax/sigmoid last layer and positive targets"],
        json!({}),
    )
}
