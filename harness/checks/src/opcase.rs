//! Single-operation cases: forward value / refusal (C04-C07) and operand gradients (C02, C03).

use crate::cmp::*;
use crate::exec::*;
use crate::runner::*;
use refmodel::ir::*;
use refmodel::model::*;
use refmodel::ops::RefErr;
use refmodel::tensor::*;
use serde::{Deserialize, Serialize};
use serde_json::{json, Value};

#[derive(Clone, Debug, Serialize, Deserialize, PartialEq)]
pub struct LeafSpec {
    pub dims: Vec<usize>,
    pub vals: Vec<f64>,
    pub tracked: bool,
}

pub fn all_shapes(max_rank: usize, max_size: usize) -> Vec<Vec<usize>> {
    let mut all = vec![];
    for r in 1..=max_rank {
        let n = max_size.pow(r as u32);
        for k in 0..n {
            let mut s = vec![0; r];
            let mut kk = k;
            for i in (0..r).rev() {
                s[i] = kk % max_size + 1;
                kk /= max_size;
            }
            all.push(s);
        }
    }
    all
}

/// broadcast class of an ordered pair of shapes (for histograms and failure signatures)
pub fn pair_class(a: &[usize], b: &[usize]) -> String {
    if a == b {
        return "equal".into();
    }
    let mut parts = vec![];
    if a.len() != b.len() {
        parts.push(if a.len() < b.len() { "left-lower-rank" } else { "right-lower-rank" });
    }
    let n = a.len().min(b.len());
    let (ta, tb) = (&a[a.len() - n..], &b[b.len() - n..]);
    let mut lead = false;
    let mut inner = false;
    let mut trail = false;
    let mut sides = (false, false);
    for i in 0..n {
        if ta[i] != tb[i] {
            if ta[i] == 1 {
                sides.0 = true
            }
            if tb[i] == 1 {
                sides.1 = true
            }
            if i == 0 && (a.len() == n || b.len() == n) && i != n - 1 {
                lead = true
            } else if i == n - 1 {
                trail = true
            } else {
                inner = true
            }
        }
    }
    if lead {
        parts.push("leading-unit")
    }
    if inner {
        parts.push("interior-unit")
    }
    if trail {
        parts.push("trailing-unit")
    }
    if sides.0 && sides.1 {
        parts.push("both-sided")
    }
    if parts.is_empty() {
        parts.push("same-trailing")
    }
    parts.join("+")
}

pub fn op_param_class(op: &OpKind) -> String {
    use OpKind::*;
    match op {
        Powf(e) => format!("powf(e={})", e),
        Sum(k) => format!("sum(k={})", k),
        Matmul { ta, tb, has_c } => format!("matmul(ta={},tb={},c={})", *ta as u8, *tb as u8, *has_c as u8),
        Conv { sr, sc } => format!("conv(stride={}x{})", sr, sc),
        Reshape(d) => format!("reshape(rank={})", d.len()),
        o => o.name().to_string(),
    }
}

/// class of the operand shapes of one operation
pub fn shape_class(op: &OpKind, dims: &[&[usize]]) -> String {
    use OpKind::*;
    match op {
        Add | Sub | Mul | Div | Axpy(_) => pair_class(dims[0], dims[1]),
        Matmul { has_c, .. } => {
            let mut s = format!("ranks={}x{}", dims[0].len(), dims[1].len());
            let la = &dims[0][..dims[0].len().saturating_sub(2)];
            let lb = &dims[1][..dims[1].len().saturating_sub(2)];
            if !la.is_empty() || !lb.is_empty() {
                s.push_str(&format!(",lead={}", pair_class(la.is_empty().then_some(&[1usize][..]).unwrap_or(la), lb.is_empty().then_some(&[1usize][..]).unwrap_or(lb))));
            }
            if *has_c {
                s.push_str(&format!(",c-rank={}", dims[2].len()));
            }
            s
        }
        Conv { sr, sc } => {
            let n = dims[0].len();
            let batch: usize = dims[0][..n - 3].iter().product();
            let f = dims[1].len();
            let (fr, fc) = (dims[1][f - 2], dims[1][f - 1]);
            format!(
                "batch={},overlap={},count={}",
                if n == 3 { "absent".to_string() } else if batch == 1 { "1".into() } else { format!(">1(rank{})", n - 3) },
                (fr > *sr && dims[0][n - 2] > fr) || (fc > *sc && dims[0][n - 1] > fc),
                if f == 3 { "absent" } else if dims[1][0] > 1 { ">1" } else { "1" }
            )
        }
        Sum(k) => format!("rank={},lead-nonunit={}", dims[0].len(), dims[0][..dims[0].len().saturating_sub(*k)].iter().any(|d| *d > 1)),
        _ => format!("rank={}", dims[0].len()),
    }
}

/// coarser shape class used in failure signatures
pub fn sig_class(op: &OpKind, dims: &[&[usize]]) -> String {
    use OpKind::*;
    match op {
        Add | Sub | Mul | Div | Axpy(_) => {
            if dims[0] == dims[1] {
                "equal-shapes".into()
            } else if dims[0].len() == dims[1].len() {
                "same-rank".into()
            } else {
                "different-rank".into()
            }
        }
        _ => shape_class(op, dims),
    }
}

fn key_of(tag: &str, op: &OpKind, leaves: &[LeafSpec], extra: u64) -> u64 {
    let mut k = KeyHasher::new(tag);
    k.s(&format!("{:?}", op));
    for l in leaves {
        k.us(&l.dims).b(l.tracked);
    }
    k.u(extra);
    k.finish()
}

/// the per-property non-triviality rules for an admissible forward case
pub fn fwd_nontrivial(op: &OpKind, dims: &[&[usize]], out: &[usize]) -> bool {
    use OpKind::*;
    match op {
        Add | Sub | Mul | Div | Axpy(_) => dims[0] != dims[1],
        Matmul { ta, tb, has_c } => {
            let lead = dims[0].len() > 2 || dims[1].len() > 2;
            numel(out) > 1 && numel(dims[0]) * numel(dims[1]) > 1 && (*ta || *tb || *has_c || lead)
        }
        Conv { .. } => {
            let n = out.len();
            let f = dims[1].len();
            out[n - 1] * out[n - 2] > 1 && dims[1][f - 3] * dims[1][f - 2] * dims[1][f - 1] > 1
        }
        Sum(k) => *k >= 1 && numel(&dims[0][dims[0].len() - k..]) > 1,
        Reshape(d) => &d[..] != dims[0],
        _ => numel(out) > 1,
    }
}

/// Forward value or refusal of one operation on fresh leaves.
#[derive(Clone, Debug, Serialize, Deserialize)]
pub struct FwdCase {
    pub op: OpKind,
    pub leaves: Vec<LeafSpec>,
    /// Some(true): the data was chosen so that the operation is exact: compare bitwise
    pub force_exact: Option<bool>,
    /// Some(dims): the SECOND operand is not a fresh leaf but `first.reshape(dims)` - a view that shares the
    /// first operand's storage (dims equal to the first operand's: the same values under the same shape)
    #[serde(default)]
    pub second_is_view_of_first: Option<Vec<usize>>,
}

impl FwdCase {
    pub fn dims(&self) -> Vec<&[usize]> {
        self.leaves.iter().map(|l| &l.dims[..]).collect()
    }
    pub fn sig(&self, kind: &str) -> String {
        format!("{}:{}:{}{}", kind, op_param_class(&self.op), sig_class(&self.op, &self.dims()), if self.second_is_view_of_first.is_some() { ":shared-storage" } else { "" })
    }
}

impl CaseKind for FwdCase {
    const KIND: &'static str = "forward-op";
    fn size(&self) -> usize {
        self.leaves.iter().map(|l| l.vals.len() + l.dims.len()).sum()
    }
    fn sample(&self) -> Value {
        json!({"op": format!("{:?}", self.op), "operand_dims": self.dims()})
    }
    fn run(&self) -> Outcome {
        let mut m = RefState::forward_only();
        let mut ex = Exec::new();
        let mut args = vec![];
        for (i, l) in self.leaves.iter().enumerate() {
            if i == 1 {
                if let Some(vd) = &self.second_is_view_of_first {
                    let st = Step::Apply(ApplySpec { op: OpKind::Reshape(vd.clone()), args: vec![0] });
                    if m.step(&st).is_err() || ex.step(&st).is_err() {
                        return Outcome::discard("the view of the first operand could not be built");
                    }
                    args.push(1);
                    continue;
                }
            }
            args.push(m.new_leaf(&l.dims, &l.vals, l.tracked));
            if let Err(e) = ex.step(&Step::Leaf { dims: l.dims.clone(), vals: l.vals.clone(), tracked: l.tracked }) {
                return Outcome::internal(format!("leaf construction panicked: {}", e));
            }
        }
        let key = key_of("fwd", &self.op, &self.leaves, self.second_is_view_of_first.is_some() as u64);
        let dims = self.dims();
        let mut classes = vec![format!("op:{}", op_param_class(&self.op)), format!("shape:{}", shape_class(&self.op, &dims))];
        if self.second_is_view_of_first.is_some() {
            classes.push("operands:shared-storage".into());
        }
        let expected = m.eval(&self.op, &args);
        let got = guarded(|| ex.eval(&self.op, &args));
        match expected {
            Err(RefErr::OutOfDomain(w)) => Outcome::discard(&w),
            Err(RefErr::Refuse(why)) => {
                classes.push("expect:refuse".into());
                match got {
                    Err(_) => Outcome::pass(true, key, classes),
                    Ok(a) => Outcome::fail(
                        "not-refused",
                        self.sig("not-refused"),
                        format!(
                            "{:?} on operand dims {:?} must be refused ({}) but returned dims {:?} values {:?}",
                            self.op,
                            dims,
                            why,
                            a.dimensions(),
                            &a.values()[..a.values().len().min(12)]
                        ),
                        key,
                        classes,
                    ),
                }
            }
            Ok(t) => {
                classes.push("expect:value".into());
                let nontrivial = fwd_nontrivial(&self.op, &dims, &t.dims);
                match got {
                    Err(p) => Outcome::fail(
                        "unexpected-panic",
                        self.sig("unexpected-panic"),
                        format!("{:?} on operand dims {:?} is admissible (expected dims {:?}) but panicked: {}", self.op, dims, t.dims, p),
                        key,
                        classes,
                    ),
                    Ok(a) => {
                        let exact = self.force_exact.unwrap_or(false) || (m.nodes.iter().all(|n| n.exact) && self.op.is_exact() && t.vals.iter().all(|x| is_exact_value(x.v)));
                        let mags: Vec<f64> = if self.force_exact == Some(true) { vec![0.0; t.numel()] } else { t.mags() };
                        match diff_array_forward(&a, &t.dims, &t.values(), &mags, exact) {
                            None => {
                                // add, subtract, multiply, divide - and negation, scaling, reciprocal, relu - are ONE correctly rounded scalar operation per
                                // element ("the scalar operation applied to the operands' elements"): in the double
                                // precision build, where library and reference hold the same operand values, every
                                // finite element must be that value to the last bit (a quotient computed as
                                // a * (1/b) is one unit off for most divisors and passes any tolerance)
                                if !IS_F32 && matches!(self.op, OpKind::Add | OpKind::Sub | OpKind::Mul | OpKind::Div | OpKind::Neg | OpKind::Recip | OpKind::ScaleR(_) | OpKind::ScaleL(_) | OpKind::Relu) {
                                    let (gv, wv) = (a.values(), t.values());
                                    if let Some(i) = (0..wv.len()).find(|&i| wv[i].is_finite() && (gv[i] as f64) != wv[i]) {
                                        return Outcome::fail(
                                            "value-mismatch",
                                            self.sig("value-mismatch"),
                                            format!("{:?} on operand dims {:?}: element {} is {:e}, not the correctly rounded scalar result {:e} (one operation per element: bitwise)", self.op, dims, i, gv[i], wv[i]),
                                            key,
                                            classes,
                                        );
                                    }
                                }
                                Outcome::pass(nontrivial, key, classes)
                            }
                            Some(d) if d == UNDECIDABLE => Outcome::discard(UNDECIDABLE),
                            Some(d) => {
                                let kind = if a.dimensions() != &t.dims[..] { "wrong-dimensions" } else { "value-mismatch" };
                                Outcome::fail(kind, self.sig(kind), format!("{:?} on operand dims {:?}: {}", self.op, dims, d), key, classes)
                            }
                        }
                    }
                }
            }
        }
    }
}

/// Several forward calls one after the other in one thread, each judged like a `FwdCase`: a result must not
/// depend on calls made before it (hidden caches keyed too coarsely).
#[derive(Clone, Debug, Serialize, Deserialize)]
pub struct SeqCase {
    pub calls: Vec<FwdCase>,
}

impl CaseKind for SeqCase {
    const KIND: &'static str = "forward-op-sequence";
    fn size(&self) -> usize {
        self.calls.iter().map(|c| c.size()).sum::<usize>() + 1
    }
    fn sample(&self) -> Value {
        json!(self.calls.iter().map(|c| c.sample()).collect::<Vec<_>>())
    }
    fn run(&self) -> Outcome {
        crate::exec::with_shared_acts(|| self.run_shared())
    }
}

impl SeqCase {
    fn run_shared(&self) -> Outcome {
        let mut last = Outcome::discard("empty sequence");
        let mut key = KeyHasher::new("seq");
        for (i, c) in self.calls.iter().enumerate() {
            let o = c.run();
            key.u(o.key);
            match &o.verdict {
                Verdict::Fail(f) => {
                    let mut f = f.clone();
                    f.detail = format!("call {} of {} in one thread: {}", i + 1, self.calls.len(), f.detail);
                    f.signature = format!("{}:after-{}-earlier-calls", f.signature, i.min(1));
                    return Outcome { verdict: Verdict::Fail(f), nontrivial: true, key: key.finish(), classes: o.classes };
                }
                Verdict::Internal(_) => return o,
                _ => last = o,
            }
        }
        Outcome { verdict: last.verdict, nontrivial: self.calls.len() >= 2, key: key.finish(), classes: { let mut c = last.classes; c.push("kind:call-sequence".into()); c } }
    }
}

/// One operand of a call of a `ReuseSeqCase`: leaf `leaf`, optionally through a fresh clone and / or a reshaped
/// view (both share the leaf's storage and whatever the library hangs on the object).
#[derive(Clone, Debug, Serialize, Deserialize)]
pub struct ReuseArg {
    pub leaf: usize,
    #[serde(default)]
    pub view: Option<Vec<usize>>,
    #[serde(default)]
    pub via_clone: bool,
}
#[derive(Clone, Debug, Serialize, Deserialize)]
pub struct ReuseCall {
    pub op: OpKind,
    pub args: Vec<ReuseArg>,
}
/// Several forward calls in one thread that REUSE THE SAME ARRAYS (directly, through clones, through reshaped
/// views): every result is judged on its own against the reference. A result must not depend on what the same
/// object, buffer or thread was used for before (memo tables hung on an array or keyed on its buffer).
#[derive(Clone, Debug, Serialize, Deserialize)]
pub struct ReuseSeqCase {
    pub leaves: Vec<LeafSpec>,
    pub calls: Vec<ReuseCall>,
}

impl CaseKind for ReuseSeqCase {
    const KIND: &'static str = "forward-op-reuse-sequence";
    fn size(&self) -> usize {
        self.leaves.iter().map(|l| l.vals.len() + l.dims.len()).sum::<usize>() + self.calls.len()
    }
    fn sample(&self) -> Value {
        json!({"leaf_dims": self.leaves.iter().map(|l| l.dims.clone()).collect::<Vec<_>>(), "calls": self.calls.iter().map(|c| format!("{:?} {:?}", c.op, c.args.iter().map(|a| (a.leaf, a.view.clone(), a.via_clone)).collect::<Vec<_>>())).collect::<Vec<_>>()})
    }
    fn run(&self) -> Outcome {
        crate::exec::with_shared_acts(|| self.run_shared())
    }
}

impl ReuseSeqCase {
    fn run_shared(&self) -> Outcome {
        let mut m = RefState::forward_only();
        let mut ex = Exec::new();
        let mut key = KeyHasher::new("reuse-seq");
        for l in &self.leaves {
            m.new_leaf(&l.dims, &l.vals, l.tracked);
            if let Err(e) = ex.step(&Step::Leaf { dims: l.dims.clone(), vals: l.vals.clone(), tracked: l.tracked }) {
                return Outcome::internal(format!("leaf construction panicked: {}", e));
            }
            key.u(key_of("leaf", &OpKind::Neg, std::slice::from_ref(l), 0));
        }
        let mut next = self.leaves.len();
        let mut classes = vec!["kind:reuse-sequence".to_string()];
        let mut judged = 0usize;
        for (ci, c) in self.calls.iter().enumerate() {
            let mut args = vec![];
            for a in &c.args {
                let mut slot = a.leaf;
                let mut steps = vec![];
                if a.via_clone {
                    steps.push(Step::Clone { h: slot });
                }
                for st in steps {
                    if m.step(&st).is_err() || ex.step(&st).is_err() {
                        return Outcome::discard("a clone could not be built");
                    }
                    slot = next;
                    next += 1;
                }
                if let Some(vd) = &a.view {
                    let st = Step::Apply(ApplySpec { op: OpKind::Reshape(vd.clone()), args: vec![slot] });
                    let (rm, re) = (m.step(&st), ex.step(&st));
                    if rm.is_err() || re.is_err() {
                        return Outcome::discard("a view could not be built");
                    }
                    slot = next;
                    next += 1;
                }
                args.push(slot);
            }
            let dims: Vec<Vec<usize>> = args.iter().map(|&h| m.node_of(h).t.dims.clone()).collect();
            classes.push(format!("op:{}", op_param_class(&c.op)));
            key.u(ci as u64).s(&format!("{:?} {:?}", c.op, c.args.iter().map(|a| (a.leaf, a.view.clone(), a.via_clone)).collect::<Vec<_>>()));
            let expected = m.eval(&c.op, &args);
            let got = guarded(|| ex.eval(&c.op, &args));
            let sig = |kind: &str| format!("{}:{}:call{}-on-reused-arrays", kind, op_param_class(&c.op), ci.min(1) + 1);
            let fail = |kind: &str, detail: String, key: u64, classes: Vec<String>| Outcome::fail(kind, sig(kind), format!("call {} of {} on arrays used before ({:?} on operand dims {:?}; leaves {:?}): {}", ci + 1, self.calls.len(), c.op, dims, self.leaves.iter().map(|l| l.dims.clone()).collect::<Vec<_>>(), detail), key, classes);
            match expected {
                Err(RefErr::OutOfDomain(w)) => return Outcome::discard(&w),
                Err(RefErr::Refuse(why)) => {
                    if let Ok(a) = got {
                        return fail("not-refused", format!("must be refused ({}) but returned dims {:?}", why, a.dimensions()), key.finish(), classes);
                    }
                }
                Ok(t) => match got {
                    Err(p) => return fail("unexpected-panic", format!("admissible (expected dims {:?}) but panicked: {}", t.dims, p), key.finish(), classes),
                    Ok(a) => match diff_array_forward(&a, &t.dims, &t.values(), &t.mags(), false) {
                        None => judged += 1,
                        Some(d) if d == UNDECIDABLE => return Outcome::discard(UNDECIDABLE),
                        Some(d) => {
                            let kind = if a.dimensions() != &t.dims[..] { "wrong-dimensions" } else { "value-mismatch" };
                            return fail(kind, d, key.finish(), classes);
                        }
                    },
                },
            }
        }
        Outcome::pass(judged >= 2, key.finish(), classes)
    }
}

/// Gradients delivered to the tracked operands of one operation: op(leaves).backward(seed).
#[derive(Clone, Debug, Serialize, Deserialize)]
pub struct GradCase {
    pub op: OpKind,
    pub leaves: Vec<LeafSpec>,
    /// None: backward(None)
    pub seed: Option<Vec<f64>>,
    /// how many times the operation result is built and summed before the pass (1 = plain single operation)
    #[serde(default)]
    pub uses: usize,
    /// how many times backward is called on the same result (0 or 1 = once); gradients accumulate
    #[serde(default)]
    pub passes: usize,
    /// the second operand is the very same handle as the first (x op x); `leaves[1]` is ignored
    #[serde(default)]
    pub same_operand: bool,
    /// 1: the second operand is a clone of the first with tracking switched off (`x.clone().untracked()`);
    /// 2: the first operand is such a clone of the second; 0: independent operands. `same_operand` wins.
    #[serde(default)]
    pub detached_clone: u8,
    /// Some(dims): the second operand is `first.reshape(dims)` - a VIEW that shares the first operand's storage
    /// (`leaves[1]` is ignored); `dims` may equal the first operand's dimensions. `same_operand` wins.
    #[serde(default)]
    pub view_of_first: Option<Vec<usize>>,
    /// the two operands change places (the view comes first)
    #[serde(default)]
    pub swap_operands: bool,
}

impl GradCase {
    pub fn dims(&self) -> Vec<&[usize]> {
        self.leaves.iter().map(|l| &l.dims[..]).collect()
    }
    pub fn sig(&self, kind: &str, operand: usize) -> String {
        format!("{}:{}:{}:operand{}", kind, op_param_class(&self.op), sig_class(&self.op, &self.dims()), operand)
    }
    pub fn history(&self) -> History {
        let mut steps: Vec<Step> = self.leaves.iter().map(|l| Step::Leaf { dims: l.dims.clone(), vals: l.vals.clone(), tracked: l.tracked }).collect();
        let n = self.leaves.len();
        let mut args: Vec<usize> = (0..n).collect();
        if self.same_operand && n >= 2 {
            args[1] = 0;
        } else if self.detached_clone != 0 && n >= 2 {
            // slots: leaves 0..n, then the clone in slot n
            let src = if self.detached_clone == 1 { 0 } else { 1 };
            steps.push(Step::Clone { h: src });
            steps.push(Step::Flag { h: n, how: FlagOp::Untracked });
            args[1 - src] = n;
        } else if let (Some(vd), true) = (&self.view_of_first, n >= 2) {
            steps.push(Step::Apply(ApplySpec { op: OpKind::Reshape(vd.clone()), args: vec![0] }));
            args[1] = n;
        }
        if self.swap_operands && args.len() >= 2 {
            args.swap(0, 1);
        }
        let uses = self.uses.max(1);
        // first slot of the operation results
        let b = steps.iter().filter(|s| matches!(s, Step::Leaf { .. } | Step::Clone { .. } | Step::Apply(_))).count();
        for _ in 0..uses {
            steps.push(Step::Apply(ApplySpec { op: self.op.clone(), args: args.clone() }));
        }
        let mut root = b;
        for u in 1..uses {
            steps.push(Step::Apply(ApplySpec { op: OpKind::Add, args: vec![root, b + u] }));
            root = b + uses + u - 1;
        }
        for p in 0..self.passes.max(1) {
            steps.push(Step::Backward { h: root, seed: self.seed.as_ref().map(|s| s.iter().map(|v| v + p as f64).collect()) });
        }
        History { steps }
    }
}

impl CaseKind for GradCase {
    const KIND: &'static str = "grad-op";
    fn size(&self) -> usize {
        self.leaves.iter().map(|l| l.vals.len() + l.dims.len()).sum::<usize>() + self.uses
    }
    fn sample(&self) -> Value {
        json!({"op": format!("{:?}", self.op), "operand_dims": self.dims(), "tracked": self.leaves.iter().map(|l| l.tracked).collect::<Vec<_>>(), "seed": self.seed, "uses": self.uses.max(1)})
    }
    fn run(&self) -> Outcome {
        let hist = self.history();
        let n = self.leaves.len();
        // only the leaves need tangent directions here (their gradients are what is judged)
        let mut m = RefState::new(0);
        let mut ex = Exec::new();
        let dims = self.dims();
        let key = key_of("grad", &self.op, &self.leaves, (self.seed.is_some() as u64) * 16 + self.uses as u64 + 64 * self.passes as u64 + 1024 * self.same_operand as u64);
        let classes = vec![
            format!("op:{}", op_param_class(&self.op)),
            format!("shape:{}", shape_class(&self.op, &dims)),
            format!("tracked:{}", self.leaves.iter().map(|l| if l.tracked { 'T' } else { 'u' }).collect::<String>()),
            format!("uses:{}", self.uses.max(1)),
            format!("passes:{}", self.passes.max(1)),
            format!("same-operand:{}", self.same_operand),
        ];
        let kinks = refmodel::ops::kink_count();
        for (i, s) in hist.steps.iter().enumerate() {
            match m.step(s) {
                Ok(()) => {}
                Err(RefErr::OutOfDomain(w)) => return Outcome::discard(&w),
                Err(RefErr::Refuse(w)) => return Outcome::discard(&format!("refused operands in a gradient case: {}", w)),
            }
            if let Err(p) = ex.step(s) {
                if is_discard(&p) {
                    return Outcome::discard(&p);
                }
                let kind = if matches!(s, Step::Backward { .. }) { "panic-in-backward" } else { "panic-in-forward" };
                return Outcome::fail(kind, self.sig(kind, 9), format!("step {} ({:?}) of {:?} on operand dims {:?} panicked: {}", i, step_name(s), self.op, dims, p), key, classes);
            }
        }
        if !m.nodes.iter().all(|nd| nd.t.all_finite()) {
            return Outcome::discard("non-finite reference value");
        }
        if refmodel::ops::kink_count() > kinks && !m.nodes.iter().all(|nd| nd.exact) {
            return Outcome::discard("a relu input is zero only up to rounding");
        }
        let exact_case = m.nodes.iter().all(|nd| nd.exact) && self.seed.as_ref().map_or(true, |s| s.iter().all(|v| is_exact_value(*v)));
        let root_numel = m.nodes.last().unwrap().t.numel();
        let seed_nonuniform = self.seed.as_ref().map_or(false, |s| s.iter().any(|v| *v != s[0]));
        let nontrivial = root_numel > 1 && seed_nonuniform || (root_numel == 1 && self.leaves.iter().any(|l| l.vals.len() > 1));
        for i in 0..n {
            let a = ex.get(i);
            let g = a.gradient();
            let node = m.node_of(i);
            match (&node.grad, g.as_ref()) {
                (GradSlot::None, None) => {}
                (GradSlot::None, Some(ga)) => {
                    return Outcome::fail(
                        "unexpected-gradient",
                        self.sig("unexpected-gradient", i),
                        format!("operand {} of {:?} (dims {:?}, tracked {}) must not receive a gradient but holds {:?}", i, self.op, dims[i], self.leaves[i].tracked, ga.values()),
                        key,
                        classes,
                    )
                }
                (GradSlot::Known { .. }, None) => {
                    return Outcome::fail(
                        "missing-gradient",
                        self.sig("missing-gradient", i),
                        format!("tracked operand {} of {:?} (dims {:?}) has no gradient after backward", i, self.op, dims[i]),
                        key,
                        classes,
                    )
                }
                (GradSlot::Known { v, m: mg }, Some(ga)) => {
                    if let Some(d) = diff_array(ga, &node.t.dims, v, mg, exact_case) {
                        if d == UNDECIDABLE {
                            return Outcome::discard(UNDECIDABLE);
                        }
                        let kind = if ga.dimensions() != &node.t.dims[..] { "gradient-shape" } else { "gradient-value" };
                        return Outcome::fail(
                            kind,
                            self.sig(kind, i),
                            format!("gradient of operand {} of {:?} (operand dims {:?}, tracked {:?}, seed {:?}, uses {}): {}", i, self.op, dims, self.leaves.iter().map(|l| l.tracked).collect::<Vec<_>>(), self.seed, self.uses.max(1), d),
                            key,
                            classes,
                        );
                    }
                }
                (GradSlot::Unknown, _) => return Outcome::internal("unpredictable gradient in a single-operation case".into()),
            }
        }
        Outcome::pass(nontrivial, key, classes)
    }
}

pub fn step_name(s: &Step) -> &'static str {
    match s {
        Step::Leaf { .. } => "leaf",
        Step::Apply(_) => "apply",
        Step::Clone { .. } => "clone",
        Step::Drop { .. } => "drop",
        Step::Rebind { .. } => "rebind",
        Step::IfGt { .. } => "if-gt",
        Step::Flag { .. } => "flag",
        Step::Backward { .. } => "backward",
        Step::ReadGrad { .. } => "read-gradient",
        Step::ClearGrad { .. } => "clear-gradient",
        Step::Update { .. } => "update",
        Step::ProbeSole { .. } => "probe-sole-owner",
        Step::Copy { .. } => "copy",
        Step::RefusedOp { .. } => "refused-custom-op",
    }
}

pub use refmodel::ops::in_domain;
