pub use refmodel::vals::*;
