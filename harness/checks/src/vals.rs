pub use refmodel::vals::*;

use crate::exec::IS_F32;

/// binary-exponent ranges of the wide-magnitude campaigns: (largest base exponent of an operand for operations
/// that only add / copy, the same for operations that multiply operands, largest per-element jitter)
pub fn wide_exps() -> (i32, i32, i32) {
    if IS_F32 {
        (90, 8, 12)
    } else {
        (900, 100, 30)
    }
}

/// operand values of log-uniform magnitude around 2^base, each element with its own jitter in [-jitter, jitter]
pub fn wide_vals(seed: u64, n: usize, base: i32, jitter: i32, signed: bool) -> Vec<f64> {
    log_uniform(seed, n, base - jitter, base + jitter, signed)
}

/// a base exponent in [-max, max] chosen by `sel` (0..=255), with the extremes and 0 over-represented
pub fn pick_base(sel: u8, max: i32) -> i32 {
    match sel % 8 {
        0 => 0,
        1 => max,
        2 => -max,
        _ => ((sel as i32 * (2 * max + 1)) >> 8) - max,
    }
}
