//! C17 Gradients are linear in the seed; an omitted seed means all ones.

use crate::c01::recipe_strategy;
use crate::cmp::*;
use crate::exec::*;
use crate::histcase::{hist_key, hist_sample};
use crate::runner::*;
use crate::vals::*;
use proptest::prelude::*;
use refmodel::elab::*;
use refmodel::ir::*;
use refmodel::model::*;
use serde::{Deserialize, Serialize};
use serde_json::{json, Value};

#[derive(Clone, Debug, Serialize, Deserialize)]
pub struct Case17 {
    /// program without passes
    pub hist: History,
    pub root: usize,
    pub s1: Vec<f64>,
    pub s2: Vec<f64>,
    pub alpha: f64,
    pub beta: f64,
    /// shape (same element count as the root) differentiated with an omitted seed just before the
    /// omitted-seed run: an earlier call must not influence a later one
    pub prelude_dims: Vec<usize>,
}

type Grads = Vec<Option<(Vec<usize>, Vec<f64>)>>;

/// run the program on a fresh instance, one pass from `root` with `seed`; gradient of every slot
fn run_once(hist: &History, root: usize, seed: Option<&[f64]>, prelude: Option<&[usize]>) -> Result<Grads, String> {
    run_after(hist, root, &[], seed, prelude)
}

/// like `run_once`, after the passes `earlier` from the same root (gradients accumulate; the root itself holds one)
fn run_after(hist: &History, root: usize, earlier: &[Option<&[f64]>], seed: Option<&[f64]>, prelude: Option<&[usize]>) -> Result<Grads, String> {
    let mut ex = Exec::new();
    for s in &hist.steps {
        ex.step(s)?;
    }
    if let Some(d) = prelude {
        guarded(|| {
            let n: usize = d.iter().product();
            let x = arr(d, &vec![1.5; n]).tracked();
            let y = &x * 2.0;
            y.backward(None);
        })?;
    }
    for e in earlier {
        ex.step(&Step::Backward { h: root, seed: e.map(|s| s.to_vec()) })?;
    }
    ex.step(&Step::Backward { h: root, seed: seed.map(|s| s.to_vec()) })?;
    let mut out = vec![];
    for s in &ex.slots {
        out.push(match s {
            None => None,
            Some(a) => a.gradient().as_ref().map(|g| (g.dimensions().to_vec(), f64s(g.values()))),
        });
    }
    Ok(out)
}

impl Case17 {
    fn check(&self) -> Result<(bool, bool), (String, String)> {
        let e = |k: &str, d: String| Err((k.to_string(), d));
        // the reference model provides magnitudes and exactness (not the expected values)
        let mut m = RefState::new(crate::histcase::dir_budget_for(&self.hist));
        for s in &self.hist.steps {
            if m.step(s).is_err() {
                return e("discard", "program not admissible".into());
            }
        }
        // data-dependent branches: the magnitudes above are only meaningful if the library takes the model's branches
        if self.hist.steps.iter().any(|s| matches!(s, Step::IfGt { .. })) {
            let mut gm = RefState::forward_only();
            let mut gx = Exec::new();
            for s in &self.hist.steps {
                if let Some(why) = branch_guard(&gm, &gx, s) {
                    return e("discard", why);
                }
                if gm.step(s).is_err() {
                    return e("discard", "program not admissible".into());
                }
                if let Err(p) = gx.step(s) {
                    return e("discard", format!("the program panicked: {}", p));
                }
            }
        }
        let exact_prog = m.nodes.iter().all(|n| n.exact);
        let comb: Vec<f64> = self.s1.iter().zip(&self.s2).map(|(a, b)| self.alpha * a + self.beta * b).collect();
        let exact = exact_prog && self.s1.iter().chain(&self.s2).chain(&comb).all(|v| is_exact_value(*v)) && refmodel::ir::is_dyadic(self.alpha) && refmodel::ir::is_dyadic(self.beta);
        let mags = |seed: &[f64]| -> Vec<Option<Vec<f64>>> {
            let eff = m.pass_effects(self.root, Some(seed));
            let mut per_node = vec![None; m.nodes.len()];
            for ef in eff {
                per_node[ef.node] = ef.contrib.map(|c| c.1);
            }
            (0..m.handles.len()).map(|h| m.handles[h].as_ref().and_then(|hd| per_node[hd.node].clone())).collect()
        };
        let (m1, m2, m3) = (mags(&self.s1), mags(&self.s2), mags(&comb));
        let run = |seed: Option<&[f64]>, prelude: Option<&[usize]>| run_once(&self.hist, self.root, seed, prelude);
        let g1 = match run(Some(&self.s1), None) {
            Ok(g) => g,
            Err(p) if is_discard(&p) => return e("discard", p),
            Err(p) => return e("discard", format!("pass with seed s1 panicked: {}", p)),
        };
        let g2 = match run(Some(&self.s2), None) {
            Ok(g) => g,
            Err(p) => return e("discard", format!("pass with seed s2 panicked: {}", p)),
        };
        let g3 = match run(Some(&comb), None) {
            Ok(g) => g,
            Err(p) => return e("panic-for-combination", format!("the passes with s1 and s2 ran, but the pass with seed alpha*s1+beta*s2 panicked: {}", p)),
        };
        // a division by a value that an update moved to exactly zero and the like: no finite gradients to relate
        if [&g1, &g2, &g3].iter().any(|g| g.iter().flatten().any(|(_, v)| v.iter().any(|x| !x.is_finite()))) {
            return e("discard", "a gradient is not finite".into());
        }
        let mut compared = false;
        for h in 0..g1.len() {
            match (&g1[h], &g2[h], &g3[h]) {
                (None, None, None) => {}
                (Some((d1, v1)), Some((d2, v2)), Some((d3, v3))) => {
                    if d1 != d3 || d2 != d3 {
                        return e("linearity-shape", format!("handle {}: gradient dimensions {:?}, {:?}, {:?} for s1, s2 and the combination", h, d1, d2, d3));
                    }
                    compared = true;
                    for i in 0..v3.len() {
                        let want = self.alpha * v1[i] + self.beta * v2[i];
                        let ok = if exact {
                            let big = [m1[h].as_ref(), m2[h].as_ref(), m3[h].as_ref()].iter().any(|m| m.map_or(true, |m| m.get(i).map_or(true, |x| x.abs() * (self.alpha.abs() + self.beta.abs() + 1.0) >= exact_limit())));
                            if big {
                                true
                            } else {
                                v3[i] == want
                            }
                        } else {
                            match (&m1[h], &m2[h], &m3[h]) {
                                (Some(a), Some(b), Some(c)) if a.len() > i && b.len() > i && c.len() > i => {
                                    // (a magnitude that overflowed makes 0 * inf = NaN: no tolerance to compare with)
                                    let mag = self.alpha.abs() * a[i] + self.beta.abs() * b[i] + c[i];
                                    if !mag.is_finite() || !a[i].is_finite() || !b[i].is_finite() || !c[i].is_finite() {
                                        return e("discard", UNDECIDABLE.to_string());
                                    }
                                    close(v3[i], want, mag, false)
                                }
                                _ => true,
                            }
                        };
                        if !ok {
                            return e(
                                "not-linear",
                                format!("handle {} element {}: g(alpha*s1+beta*s2) = {:?} but alpha*g(s1)+beta*g(s2) = {:?} (alpha {}, beta {}, s1 {:?}, s2 {:?}; g(s1) {:?}, g(s2) {:?}, g(comb) {:?})", h, i, v3[i], want, self.alpha, self.beta, self.s1, self.s2, v1, v2, v3),
                            );
                        }
                    }
                }
                (a, b, c) => {
                    return e("linearity-presence", format!("handle {}: gradient present for s1: {}, s2: {}, alpha*s1+beta*s2: {} (alpha {}, beta {}, s1 {:?}, s2 {:?})", h, a.is_some(), b.is_some(), c.is_some(), self.alpha, self.beta, self.s1, self.s2));
                }
            }
        }
        // homogeneity under an exact rescaling of the seed by a power of two (far below / above one)
        for scale in [2f64.powi(-60), 2f64.powi(40)] {
            if IS_F32 && scale < 1.0 {
                continue;
            }
            let ss: Vec<f64> = self.s1.iter().map(|x| x * scale).collect();
            let gs = match run(Some(&ss), None) {
                Ok(g) => g,
                Err(p) => return e("panic-for-rescaled-seed", format!("the pass with s1 ran, but the pass with {:e}*s1 panicked: {}", scale, p)),
            };
            for h in 0..g1.len() {
                match (&g1[h], &gs[h]) {
                    (None, None) => {}
                    (Some((_, v1)), Some((_, vs))) if v1.len() == vs.len() => {
                        for i in 0..v1.len() {
                            let want = v1[i] * scale;
                            let ok = if exact { vs[i] == want } else { m1[h].as_ref().filter(|m| m.len() > i).map_or(true, |m| close(vs[i], want, 2.0 * m[i] * scale, false) || (vs[i] - want).abs() <= 1e-9 * scale * (m[i] + want.abs() / scale)) };
                            if !ok {
                                return e("not-homogeneous", format!("handle {} element {}: g({:e}*s1) = {:e} but {:e}*g(s1) = {:e} (s1 {:?})", h, i, scale, vs[i], scale, want, self.s1));
                            }
                        }
                    }
                    (a, b) => return e("linearity-presence", format!("handle {}: gradient present for s1: {}, for {:e}*s1: {}", h, a.is_some(), scale, b.is_some())),
                }
            }
        }
        // the same instance again: pass with s1, clear the gradients of graph-less arrays only (what an optimizer
        // does), pass with s2 - those arrays must now hold exactly g(s2) of a fresh instance
        {
            let res = (|| -> Result<Grads, String> {
                let mut ex = Exec::new();
                for s in &self.hist.steps {
                    ex.step(s)?;
                }
                ex.step(&Step::Backward { h: self.root, seed: Some(self.s1.clone()) })?;
                for h in 0..m.handles.len() {
                    if let (Some(hd), Some(a)) = (&m.handles[h], ex.slots.get(h).and_then(|x| x.as_ref())) {
                        if !m.nodes[hd.node].has_graph() {
                            a.replace_gradient();
                        }
                    }
                }
                ex.step(&Step::Backward { h: self.root, seed: Some(self.s2.clone()) })?;
                Ok(ex.slots.iter().map(|s| s.as_ref().and_then(|a| a.gradient().as_ref().map(|g| (g.dimensions().to_vec(), f64s(g.values()))))).collect())
            })();
            match res {
                Err(p) if is_discard(&p) => {}
                Err(p) => return e("panic-second-pass", format!("a second pass on the same instance panicked: {}", p)),
                Ok(gg) => {
                    for h in 0..gg.len() {
                        let is_leaf = m.handles[h].as_ref().map_or(false, |hd| !m.nodes[hd.node].has_graph());
                        let is_root = m.handles[h].as_ref().map_or(false, |hd| hd.node == m.handle(self.root).node);
                        if !is_leaf || is_root {
                            continue;
                        }
                        let same = match (&gg[h], &g2[h]) {
                            (None, None) => true,
                            (Some((d1, v1)), Some((d2, v2))) => d1 == d2 && v1.len() == v2.len() && (0..v1.len()).all(|i| if exact { v1[i] == v2[i] } else { m2[h].as_ref().filter(|mm| mm.len() > i).map_or(true, |mm| close(v1[i], v2[i], 2.0 * mm[i], false)) }),
                            _ => false,
                        };
                        if !same {
                            return e("second-pass-differs", format!("handle {}: after a pass with s1 and clearing the leaf gradients, the pass with s2 leaves {:?}; on a fresh instance it leaves {:?} (s1 {:?}, s2 {:?})", h, gg[h], g2[h], self.s1, self.s2));
                        }
                    }
                }
            }
        }
        // omitted seed == explicit ones, bitwise
        let ones = vec![1.0; self.s1.len()];
        let go = match run(Some(&ones), None) {
            Ok(g) => g,
            Err(p) => return e("discard", format!("pass with a seed of ones panicked: {}", p)),
        };
        let gn = match run(None, Some(&self.prelude_dims)) {
            Ok(g) => g,
            Err(p) => return e("omitted-seed-panics", format!("backward(ones) ran but backward(None) panicked (an unrelated backward(None) on dims {:?} ran before): {}", self.prelude_dims, p)),
        };
        for h in 0..gn.len() {
            let same = match (&gn[h], &go[h]) {
                (None, None) => true,
                (Some((d1, v1)), Some((d2, v2))) => d1 == d2 && v1.iter().zip(v2).all(|(a, b)| a.to_bits() == b.to_bits()) && v1.len() == v2.len(),
                _ => false,
            };
            if !same {
                return e("omitted-seed", format!("handle {}: backward(None) gives {:?} but backward(ones) gives {:?} (an unrelated backward(None) on dims {:?} ran before)", h, gn[h], go[h], self.prelude_dims));
            }
        }
        // ... also on a root that already holds a gradient: after a seeded pass, and after two omitted-seed passes,
        // from the SAME root, backward(None) and backward(ones) leave the same accumulated gradients, bitwise
        // (an implementation that takes the root's stored gradient for the seed it was given last time)
        let s1 = Some(&self.s1[..]);
        for (label, earlier) in [("a pass seeded with s1", vec![s1]), ("two passes with an omitted seed", vec![None, None])] {
            let go = match run_after(&self.hist, self.root, &earlier, Some(&ones), None) {
                Ok(g) => g,
                Err(_) => continue,
            };
            let gn = match run_after(&self.hist, self.root, &earlier, None, None) {
                Ok(g) => g,
                Err(p) => return e("omitted-seed-panics", format!("after {} from the same root backward(ones) ran but backward(None) panicked: {}", label, p)),
            };
            for h in 0..gn.len() {
                let same = match (&gn[h], &go[h]) {
                    (None, None) => true,
                    (Some((d1, v1)), Some((d2, v2))) => d1 == d2 && v1.len() == v2.len() && v1.iter().zip(v2).all(|(a, b)| a.to_bits() == b.to_bits() || (a.is_nan() && b.is_nan())),
                    _ => false,
                };
                if !same {
                    return e("omitted-seed", format!("handle {}: after {} from the same root, backward(None) leaves {:?} but backward(ones) leaves {:?}", h, label, gn[h], go[h]));
                }
            }
        }
        Ok((compared, exact))
    }
}

impl CaseKind for Case17 {
    const KIND: &'static str = "c17";
    fn size(&self) -> usize {
        self.hist.steps.len() * 16 + self.s1.len()
    }
    fn sample(&self) -> Value {
        json!({"program": hist_sample(&self.hist), "root": self.root, "s1": self.s1, "s2": self.s2, "alpha": self.alpha, "beta": self.beta})
    }
    fn run(&self) -> Outcome {
        let mut k = KeyHasher(hist_key(&self.hist));
        k.u(self.root as u64).u((self.alpha * 16.0) as i64 as u64).u((self.beta * 16.0) as i64 as u64);
        let nonlinear = self.hist.ops().iter().any(|o| o.is_nonlinear());
        // linear independence of s1, s2
        let indep = {
            let n = self.s1.len();
            let mut ind = false;
            for i in 0..n {
                for j in 0..n {
                    if (self.s1[i] * self.s2[j] - self.s1[j] * self.s2[i]).abs() > 1e-12 {
                        ind = true;
                    }
                }
            }
            ind
        };
        let mut classes: Vec<String> = vec![format!("nonlinear-op:{}", nonlinear), format!("independent-seeds:{}", indep)];
        match self.check() {
            Ok((compared, exact)) => {
                classes.push(format!("mode:{}", if exact { "exact" } else { "tolerance" }));
                Outcome::pass(compared && nonlinear && indep, k.finish(), classes)
            }
            Err((kind, d)) if kind == "discard" => Outcome::discard(&d),
            Err((kind, d)) => Outcome::fail(&kind, kind.clone(), d, k.finish(), classes),
        }
    }
}

#[derive(Clone, Debug)]
pub struct R17 {
    pub prog: Vec<Instr>,
    pub p: [u8; 8],
    pub vseed: u64,
}

const COEF: [f64; 8] = [1.0, -1.0, 2.0, 0.5, 0.0, -0.5, 3.0, 0.25];

fn seed_vec(kind: u8, n: usize, vseed: u64, exact: bool) -> Vec<f64> {
    match kind % 6 {
        0 => gen_vals(vseed, n, if exact { VKind::Int } else { VKind::Small }),
        1 => {
            // one-hot
            let mut v = vec![0.0; n];
            v[(vseed % n as u64) as usize] = 1.0 + (vseed >> 20) as f64 % 3.0;
            v
        }
        2 => gen_vals(vseed, n, VKind::Int).iter().enumerate().map(|(i, x)| if (vseed >> (i % 60)) & 1 == 1 { 0.0 } else { *x }).collect(),
        // uniform: every entry equal
        4 => vec![1.0 + (vseed % 3) as f64; n],
        _ => gen_vals(vseed, n, VKind::Int),
    }
}

pub fn build(cfg: &GenCfg, r: &R17) -> Option<Case17> {
    let full = elaborate(cfg, &r.prog);
    // strip passes, remember the root of the last one
    let mut root = None;
    let mut steps = vec![];
    for s in full.steps {
        match s {
            Step::Backward { h, .. } => root = Some(h),
            other => steps.push(other),
        }
    }
    let root = root?;
    let hist = History { steps };
    let mut m = RefState::new(crate::histcase::dir_budget_for(&hist));
    for s in &hist.steps {
        m.step(s).ok()?;
    }
    m.handles.get(root)?.as_ref()?;
    let n = m.node_of(root).t.numel();
    let s1 = seed_vec(r.p[0], n, r.vseed, cfg.exact_only);
    let s1: Vec<f64> = if s1.iter().all(|v| *v == 0.0) { vec![1.0; n] } else { s1 };
    let mut s2 = seed_vec(r.p[1], n, r.vseed ^ 0x55, cfg.exact_only);
    if r.p[2] % 4 == 0 {
        // s2 mirrors s1 on part of the entries so that the combination has exact zeros
        s2 = s1.iter().enumerate().map(|(i, x)| if i % 2 == 0 { -x } else { *x }).collect();
    } else if r.p[2] % 4 == 1 {
        // s2 complements s1 to a uniform array: two non-uniform seeds whose sum is uniform
        s2 = s1.iter().map(|x| 7.0 - x).collect();
    }
    let dims = m.node_of(root).t.dims.clone();
    let alts = refmodel::tensor::shapes_with_numel(n);
    let mut prelude_dims = alts[(r.p[5] as usize * alts.len()) >> 8].clone();
    if prelude_dims == dims {
        prelude_dims = dims.iter().rev().cloned().collect();
    }
    Some(Case17 { hist, root, s1, s2, alpha: COEF[(r.p[3] % 8) as usize], beta: COEF[(r.p[4] % 8) as usize], prelude_dims })
}

/// The seed handed to `backward` is a CLONE of one of the program's own arrays (an operand, the other operand, the
/// result itself) instead of a fresh array with the same values: the gradients must be the same, bit for bit.
#[derive(Clone, Debug, Serialize, Deserialize)]
pub struct AliasSeedCase {
    pub op: OpKind,
    pub dims: Vec<usize>,
    /// 0: clone of operand 0; 1: clone of operand 1; 2: clone of the result; 3: a reshaped view of operand 1
    pub which: u8,
    pub vseed: u64,
    pub both_tracked: bool,
}

impl CaseKind for AliasSeedCase {
    const KIND: &'static str = "c17-alias-seed";
    fn size(&self) -> usize {
        self.dims.iter().product::<usize>() + 2
    }
    fn sample(&self) -> Value {
        let what = ["operand 0", "operand 1", "the result", "a view of operand 1"][self.which as usize % 4];
        json!({"op": format!("{:?}", self.op), "dims": self.dims, "seed_is_a_clone_of": what})
    }
    fn run(&self) -> Outcome {
        let mut k = KeyHasher::new("alias-seed");
        k.s(&format!("{:?}", self.op)).us(&self.dims).u(self.which as u64).b(self.both_tracked);
        let classes = vec![format!("seed-alias:{}", self.which % 4)];
        let n: usize = self.dims.iter().product();
        let one = |aliased: bool| -> Result<Grads, String> {
            let mut ex = Exec::new();
            ex.step(&Step::Leaf { dims: self.dims.clone(), vals: gen_vals(self.vseed, n, VKind::PosInt), tracked: true })?;
            ex.step(&Step::Leaf { dims: self.dims.clone(), vals: gen_vals(self.vseed ^ 9, n, VKind::PosInt), tracked: self.both_tracked })?;
            ex.step(&Step::Apply(ApplySpec { op: self.op.clone(), args: vec![0, 1] }))?;
            let src = match self.which % 4 {
                0 => ex.get(0).clone(),
                1 => ex.get(1).clone(),
                2 => ex.get(2).clone(),
                _ => ex.get(1).reshape(vec![n]).reshape(self.dims.clone()),
            };
            if src.dimensions() != ex.get(2).dimensions() {
                return Err(format!("{}: the aliased array does not have the result's shape", HARNESS_DISCARD));
            }
            let seed = if aliased { src } else { arr(src.dimensions(), &f64s(src.values())) };
            let root = ex.get(2).clone();
            guarded(move || root.backward(Some(seed)))?;
            Ok(ex.slots.iter().map(|s| s.as_ref().and_then(|a| a.gradient().as_ref().map(|g| (g.dimensions().to_vec(), f64s(g.values()))))).collect())
        };
        let fresh = match one(false) {
            Ok(g) => g,
            Err(p) => return Outcome::discard(&format!("the pass with a fresh seed does not run: {}", p)),
        };
        match one(true) {
            Err(p) if is_discard(&p) => Outcome::discard(&p),
            Err(p) => Outcome::fail("aliased-seed-panics", "aliased-seed-panics".into(), format!("{:?} on dims {:?}: the pass runs with a fresh seed but panics when the seed is a clone of {}: {}", self.op, self.dims, ["operand 0", "operand 1", "the result", "a view of operand 1"][self.which as usize % 4], p), k.finish(), classes),
            Ok(g) => {
                let same = g.len() == fresh.len() && g.iter().zip(&fresh).all(|(a, b)| match (a, b) {
                    (None, None) => true,
                    (Some((d1, v1)), Some((d2, v2))) => d1 == d2 && v1.len() == v2.len() && v1.iter().zip(v2).all(|(x, y)| x.to_bits() == y.to_bits()),
                    _ => false,
                });
                if same {
                    Outcome::pass(true, k.finish(), classes)
                } else {
                    Outcome::fail("aliased-seed", "aliased-seed-differs".into(), format!("{:?} on dims {:?}: gradients (operand 0, operand 1, result) with a fresh seed {:?}, with the seed being a clone of {}: {:?}", self.op, self.dims, fresh, ["operand 0", "operand 1", "the result", "a view of operand 1"][self.which as usize % 4], g), k.finish(), classes)
                }
            }
        }
    }
}

pub fn dispatch(kind: &str, v: &Value) -> Option<Outcome> {
    match kind {
        "c17" => serde_json::from_value::<Case17>(v.clone()).ok().map(|c| c.run()),
        "c17-alias-seed" => serde_json::from_value::<AliasSeedCase>(v.clone()).ok().map(|c| c.run()),
        _ => None,
    }
}

pub fn base_cfg(exact: bool, t: Tier) -> GenCfg {
    let mut cfg = GenCfg::programs(exact);
    cfg.max_steps = t.pick(14, 36);
    cfg.max_elems = t.pick(48, 200);
    cfg
}

pub fn campaigns(ctx: &Ctx) -> Stats {
    let mut st = Stats::default();
    let t = ctx.tier;
    let (len, total) = t.pick((10usize, 120000u64), (30, 400000));
    for (name, exact) in [("exact-programs", true), ("mixed-programs", false)] {
        let cfg = base_cfg(exact, t);
        let strat = move || (recipe_strategy(len), any::<[u8; 8]>(), any::<u64>()).prop_map(|(prog, p, vseed)| R17 { prog, p, vseed }).boxed();
        st.merge(ctx.run_prop(name, total / 2, strat, move |r| build(&cfg, r)));
    }
    // the seed is a clone of one of the program's own arrays
    {
        use OpKind::*;
        let ops: Vec<OpKind> = vec![Add, Sub, Mul, Div, Axpy(2.0), CBMul, CBAdd, CMul, CAdd];
        let shapes: Vec<Vec<usize>> = vec![vec![3], vec![2, 2], vec![1], vec![2, 1, 2]];
        st.merge(ctx.run_indexed("seed-is-a-clone-of-a-program-array", (ops.len() * shapes.len() * 4 * 2) as u64, None, |i| {
            let op = ops[i as usize % ops.len()].clone();
            let dims = shapes[(i as usize / ops.len()) % shapes.len()].clone();
            let which = ((i as usize / ops.len() / shapes.len()) % 4) as u8;
            Some(AliasSeedCase { op, dims, which, vseed: i + ctx.seed, both_tracked: i as usize / ops.len() / shapes.len() / 4 == 1 })
        }));
    }
    // a session: pass, optimizer update (learning rates incl. 0 and negative ones), then the pass whose seed varies -
    // the update cleared the parameter's gradient, so what the last pass stores is linear in its seed
    {
        use OpKind::*;
        let lrs = [0.0, 0.5, -0.25, 1.0];
        let ops2: Vec<OpKind> = vec![Mul, Add, Sub, Div, Axpy(2.0)];
        st.merge(ctx.run_indexed("pass-update-pass", (lrs.len() * ops2.len() * 3 * 4) as u64, None, |i| {
            let lr = lrs[(i % 4) as usize];
            let op2 = ops2[((i / 4) % 5) as usize].clone();
            let k = [1usize, 3, 4][((i / 20) % 3) as usize];
            let v = (i / 60) as u64;
            let steps = vec![
                Step::Leaf { dims: vec![k], vals: gen_vals(i + 1, k, VKind::PosInt), tracked: true },
                Step::Leaf { dims: vec![k], vals: gen_vals(i + 2, k, VKind::PosInt), tracked: false },
                Step::Apply(ApplySpec { op: Mul, args: vec![0, 1] }),
                Step::Backward { h: 2, seed: if v % 2 == 0 { None } else { Some(gen_vals(i + 3, k, VKind::Int)) } },
                Step::Update { lr, params: vec![0] },
                Step::Drop { h: 2 },
                Step::Apply(ApplySpec { op: op2, args: if v < 2 { vec![0, 1] } else { vec![1, 0] } }),
            ];
            let s1 = gen_vals(i + 4, k, VKind::Int).iter().map(|x| x + 4.0).collect::<Vec<f64>>();
            let s2 = gen_vals(i + 5, k, VKind::Int).iter().enumerate().map(|(j, x)| x + if j % 2 == 0 { 5.0 } else { -6.0 }).collect::<Vec<f64>>();
            Some(Case17 { hist: History { steps }, root: 3, s1, s2, alpha: COEF[(i % 8) as usize], beta: COEF[((i / 8) % 8) as usize], prelude_dims: vec![k] })
        }));
    }
    for (name, p) in [("programs-with-large-dimensions", Profile::LargeDims), ("programs-with-wide-magnitudes", Profile::WideMagnitudes)] {
        let cfg = base_cfg(false, t).with_profile(p, t == Tier::Thorough, crate::exec::IS_F32);
        let strat = move || (recipe_strategy(len), any::<[u8; 8]>(), any::<u64>()).prop_map(|(prog, p, vseed)| R17 { prog, p, vseed }).boxed();
        st.merge(ctx.run_prop(name, crate::histcase::profile_total(t, p), strat, move |r| build(&cfg, r)));
    }
    st
}

pub fn run(ctx: &Ctx) -> i32 {
    let mut st = ctx.run_replays(&dispatch);
    st.merge(campaigns(ctx));
    if ctx.tier == Tier::Thorough {
        st.merge(ctx.run_fuzz(10000, ctx.threads, &dispatch));
    }
    finish(
        ctx,
        st,
        "cases = a generated program (same generator as C01: all operations, sharing, re-binding, branches, custom operations), a root, two seeds s1, s2 (random, one-hot, sparse, or mirrored so the combination contains exact zeros) and coefficients alpha, beta from {1,-1,2,0.5,0,-0.5,3,0.25}. Five fresh instances of the program are run: seeds s1, s2, alpha*s1+beta*s2, an omitted seed (after an unrelated omitted-seed pass on another shape with the same element count) and explicit ones. Metamorphic oracle, no reference values: for every array, g(alpha*s1+beta*s2) == alpha*g(s1)+beta*g(s2) (presence, shape, value) and backward(None) == backward(ones) bitwise. Non-trivial = s1, s2 linearly independent, the program contains a non-linear operation and at least one gradient was compared; distinct by (program structure, root, coefficients).",
        &["exact programs (integer data, exact operations, dyadic coefficients) are compared bitwise while magnitudes stay below 2^22; otherwise the tolerance is rtol*(|alpha| m1 + |beta| m2 + m3) + atol with magnitudes m taken from the reference model (rtol 1e-9 f64)", "the reference model is used only for exactness and magnitudes, never for expected values"],
        json!({}),
    )
}
