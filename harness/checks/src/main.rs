//! corgi-verif: property-based checks of the corgi properties C01..C19.
//!   corgi-verif check <ID> [--tier quick|thorough] [--seed N] [--threads N] [--root DIR]
//!   corgi-verif replay <ID> <file> [--root DIR]
//! exit 0: property held on everything explored; 1: violation (VIOLATION line); 2: inconclusive / internal.

use checks::runner::*;
use checks::{dispatch_for, known, run_check};
use std::sync::atomic::{AtomicU64, Ordering};
use std::sync::Arc;
use std::time::Instant;

fn main() {
    if checks::exec::IS_F32 {
        // values computed in single precision carry ~1e-7 relative noise: widen the undecidable band around relu kinks
        refmodel::ops::set_kink_rel(1e-4);
    }
    let args: Vec<String> = std::env::args().collect();
    let mut pos = vec![];
    let mut tier = std::env::var("VERIF_TIER").unwrap_or_else(|_| "quick".into());
    let mut seed: u64 = std::env::var("VERIF_SEED").ok().and_then(|s| s.trim().parse::<i64>().ok()).map(|x| x as u64).unwrap_or(0);
    let mut threads: usize = std::env::var("VERIF_THREADS").ok().and_then(|s| s.parse().ok()).unwrap_or_else(|| std::thread::available_parallelism().map(|n| n.get()).unwrap_or(4).min(16));
    let mut root = std::env::var("VERIF_ROOT").unwrap_or_else(|_| "/verif".into());
    let mut i = 1;
    while i < args.len() {
        match args[i].as_str() {
            "--tier" => {
                tier = args[i + 1].clone();
                i += 1
            }
            "--seed" => {
                seed = args[i + 1].parse::<i64>().expect("seed") as u64;
                i += 1
            }
            "--threads" => {
                threads = args[i + 1].parse().expect("threads");
                i += 1
            }
            "--root" => {
                root = args[i + 1].clone();
                i += 1
            }
            x => pos.push(x.to_string()),
        }
        i += 1;
    }
    // panics of corgi are data (refusals or violations); keep them quiet
    std::panic::set_hook(Box::new(|_| {}));
    if pos.len() < 2 {
        eprintln!("usage: corgi-verif check <ID> [--tier T] [--seed N] | replay <ID> <file>");
        std::process::exit(2);
    }
    let tier = match tier.as_str() {
        "thorough" => Tier::Thorough,
        _ => Tier::Quick,
    };
    let heartbeats: Arc<Vec<AtomicU64>> = Arc::new((0..64).map(|_| AtomicU64::new(0)).collect());
    let started = Instant::now();
    let ctx = Ctx { property: pos[1].clone(), tier, seed, threads, known: known::Known::load(&root), root, started, heartbeats: heartbeats.clone() };
    // watchdog: a single case running longer than the limit is a hang -> inconclusive (exit 2), never a violation
    {
        let hb = heartbeats.clone();
        // the whole run has a wall-clock budget too (a tree on which every case is slow, e.g. path-proportional
        // backward work, would otherwise keep a check busy for hours): exhausting it is inconclusive as well
        let budget_ms: u64 = std::env::var("VERIF_TIME_LIMIT_S").ok().and_then(|v| v.parse::<u64>().ok()).unwrap_or(if tier == Tier::Thorough { 6 * 3600 } else { 1800 }) * 1000;
        std::thread::spawn(move || loop {
            std::thread::sleep(std::time::Duration::from_secs(2));
            let now = started.elapsed().as_millis() as u64;
            if now > budget_ms {
                eprintln!("INCONCLUSIVE: the run exceeded its wall-clock budget of {} s", budget_ms / 1000);
                std::process::exit(2);
            }
            for (w, h) in hb.iter().enumerate() {
                let t = h.load(Ordering::Relaxed);
                if t != 0 && now > t + 600_000 {
                    eprintln!("INCONCLUSIVE: worker {} spent more than 600 s in one case (hang or resource exhaustion)", w);
                    std::process::exit(2);
                }
            }
        });
    }
    let code = match pos[0].as_str() {
        "check" => run_check(&ctx),
        "replay" => {
            let path = pos.get(2).expect("replay file");
            let txt = std::fs::read_to_string(path).expect("read replay");
            let v: serde_json::Value = serde_json::from_str(&txt).expect("parse replay");
            let kind = v["kind"].as_str().unwrap_or("").to_string();
            match dispatch_for(&ctx.property).and_then(|d| d(&kind, &v["case"])) {
                None => {
                    eprintln!("cannot replay kind {:?} for {}", kind, ctx.property);
                    2
                }
                Some(out) => match out.verdict {
                    Verdict::Pass => {
                        println!("replay passed: property={} file={}", ctx.property, path);
                        0
                    }
                    Verdict::Discard(w) => {
                        println!("replay is outside the property's domain: {}", w);
                        0
                    }
                    Verdict::Internal(m) => {
                        eprintln!("INTERNAL: {}", m);
                        2
                    }
                    Verdict::Fail(f) => {
                        println!("VIOLATION property={} replay={}", ctx.property, path);
                        println!("  kind={} signature={}", f.kind, f.signature);
                        println!("  {}", f.detail);
                        1
                    }
                },
            }
        }
        _ => 2,
    };
    std::process::exit(code);
}
