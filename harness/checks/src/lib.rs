//! corgi verification checks: library part (shared by the corgi-verif binary and the fuzz targets).
pub mod c01;
pub mod c02;
pub mod c03;
pub mod histcase;
pub mod interp;
pub mod c04;
pub mod c05;
pub mod c06;
pub mod c07;
pub mod c08;
pub mod c09;
pub mod c10;
pub mod c11;
pub mod c12;
pub mod c13;
pub mod c14;
pub mod c15;
pub mod layers;
pub mod c16;
pub mod c17;
pub mod c18;
pub mod c19;
pub mod gens;
pub mod cmp;
pub mod exec;
pub mod known;
pub mod opcase;
pub mod runner;
pub mod modelroute;
pub mod scale;
pub mod vals;
pub mod fuzzing;

use runner::*;

pub fn dispatch_for(id: &str) -> Option<fn(&str, &serde_json::Value) -> Option<Outcome>> {
    Some(match id {
        "C04" => c04::dispatch,
        "C19" => c19::dispatch,
        "C14" => c14::dispatch,
        "C15" => c15::dispatch,
        "C08" => c08::dispatch,
        "C09" => c09::dispatch,
        "C18" => c18::dispatch,
        "C10" => c10::dispatch,
        "C11" => c11::dispatch,
        "C12" => c12::dispatch,
        "C17" => c17::dispatch,
        "C13" => c13::dispatch,
        "C16" => c16::dispatch,
        "C01" => c01::dispatch,
        "C03" => c03::dispatch,
        "C05" => c05::dispatch,
        "C06" => c06::dispatch,
        "C07" => c07::dispatch,
        "C02" => c02::dispatch,
        _ => return None,
    })
}

pub fn run_check(ctx: &Ctx) -> i32 {
    match ctx.property.as_str() {
        "C04" => c04::run(ctx),
        "C19" => c19::run(ctx),
        "C14" => c14::run(ctx),
        "C15" => c15::run(ctx),
        "C08" => c08::run(ctx),
        "C09" => c09::run(ctx),
        "C18" => c18::run(ctx),
        "C10" => c10::run(ctx),
        "C11" => c11::run(ctx),
        "C12" => c12::run(ctx),
        "C17" => c17::run(ctx),
        "C13" => c13::run(ctx),
        "C16" => c16::run(ctx),
        "C01" => c01::run(ctx),
        "C03" => c03::run(ctx),
        "C05" => c05::run(ctx),
        "C06" => c06::run(ctx),
        "C07" => c07::run(ctx),
        "C02" => c02::run(ctx),
        other => {
            eprintln!("unknown property {}", other);
            2
        }
    }
}

