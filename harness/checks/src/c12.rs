//! C12 Handles are transparent: clones, drops and re-binding never change results.

use crate::c01::recipe_strategy;
use crate::exec::*;
use crate::histcase::{hist_key, hist_sample};
use crate::runner::*;
use proptest::prelude::*;
use refmodel::elab::*;
use refmodel::ir::*;
use refmodel::tensor::numel;
use serde::{Deserialize, Serialize};
use serde_json::{json, Value};

/// A base program (leaves, operations, flag steps, passes; no clones/drops/re-binding of its own) and
/// the bytes that choose where the variant clones, drops, re-binds and reads.
#[derive(Clone, Debug, Serialize, Deserialize)]
pub struct Case12 {
    pub base: History,
    pub choices: Vec<u8>,
}

pub struct Variant {
    pub hist: History,
    /// base handle -> variant slot through which its value/gradient is read at the end
    pub read: Vec<usize>,
    /// base handle -> second live variant slot of the same array (the graph-side handle), if still alive
    pub other: Vec<Option<usize>>,
    pub n_rewrites: usize,
    pub touched_shared_or_root: bool,
}

use crate::interp::step_refs as refs_of;

pub fn make_variant(base: &History, choices: &[u8]) -> Variant {
    let mut ci = 0usize;
    let mut next = |m: u8| -> bool {
        let b = if choices.is_empty() { 0 } else { choices[ci % choices.len()] };
        ci += 1;
        b % m == 0
    };
    // count base handles and last uses, fan-out
    let mut nh = 0;
    let mut last_use: Vec<usize> = vec![];
    let mut uses: Vec<usize> = vec![];
    let mut roots: Vec<usize> = vec![];
    for (i, s) in base.steps.iter().enumerate() {
        for r in refs_of(s) {
            last_use[r] = i;
            if matches!(s, Step::Apply(_)) {
                uses[r] += 1;
            }
        }
        if let Step::Backward { h, .. } = s {
            roots.push(*h);
        }
        if matches!(s, Step::Leaf { .. } | Step::Apply(_) | Step::Clone { .. }) {
            last_use.push(i);
            uses.push(0);
            nh += 1;
        }
    }
    let mut out: Vec<Step> = vec![];
    let mut nslots = 0usize;
    let mut map: Vec<usize> = vec![0; nh];
    let mut obs: Vec<Option<usize>> = vec![None; nh];
    let mut dead: Vec<bool> = vec![false; nh];
    // handles whose keep_gradient flag was rewritten by tracked()/untracked() since they were created
    let mut keep_rewritten: Vec<bool> = vec![false; nh];
    let mut cur = 0usize; // next base handle id
    let mut n_rewrites = 0;
    let mut touched = false;
    let mark = |h: usize, touched: &mut bool| {
        if uses[h] >= 2 || roots.contains(&h) {
            *touched = true;
        }
    };
    for (i, s) in base.steps.iter().enumerate() {
        match s {
            Step::Leaf { .. } => {
                out.push(s.clone());
                map[cur] = nslots;
                nslots += 1;
                if next(2) {
                    out.push(Step::Clone { h: map[cur] });
                    obs[cur] = Some(nslots);
                    nslots += 1;
                    n_rewrites += 1;
                }
                cur += 1;
            }
            Step::Apply(a) => {
                let mut temps = vec![];
                let mut vargs = vec![];
                for &x in &a.args {
                    if next(3) {
                        out.push(Step::Clone { h: map[x] });
                        temps.push(nslots);
                        vargs.push(nslots);
                        nslots += 1;
                        n_rewrites += 1;
                        mark(x, &mut touched);
                    } else {
                        vargs.push(map[x]);
                    }
                }
                let x0 = a.args[0];
                // re-bind the first operand's variable to the result when the program no longer names it
                // (sum(0) returns a handle of the same array: re-binding it would drop nothing, skip)
                let rebind = next(3) && last_use[x0] == i && !dead[x0] && !matches!(a.op, OpKind::Sum(0)) && a.args.iter().filter(|&&y| y == x0).count() >= 1;
                if rebind {
                    out.push(Step::Rebind { target: map[x0], spec: ApplySpec { op: a.op.clone(), args: vargs } });
                    map[cur] = map[x0];
                    dead[x0] = true;
                    n_rewrites += 1;
                    mark(x0, &mut touched);
                } else {
                    out.push(Step::Apply(ApplySpec { op: a.op.clone(), args: vargs }));
                    map[cur] = nslots;
                    nslots += 1;
                }
                for t in temps {
                    out.push(Step::Drop { h: t });
                }
                if next(3) {
                    out.push(Step::Clone { h: map[cur] });
                    obs[cur] = Some(nslots);
                    nslots += 1;
                    n_rewrites += 1;
                }
                cur += 1;
            }
            // a clone that is part of the base program itself
            Step::Clone { h } => {
                out.push(Step::Clone { h: map[*h] });
                map[cur] = nslots;
                nslots += 1;
                cur += 1;
            }
            Step::Flag { h, how } => {
                if matches!(how, FlagOp::Tracked | FlagOp::Untracked) {
                    keep_rewritten[*h] = true;
                }
                out.push(Step::Flag { h: map[*h], how: *how })
            }
            Step::Backward { h, seed } => {
                // a clone of the result taken when it was created: the handle the program uses may have been told to
                // stop or start tracking since, which says how LATER operations treat it and nothing about the pass
                // (whether the result keeps its own gradient is the other flag, so that one must not have been rewritten)
                if obs[*h].is_some() && !keep_rewritten[*h] && next(3) {
                    out.push(Step::Backward { h: obs[*h].unwrap(), seed: seed.clone() });
                    n_rewrites += 1;
                    touched = true;
                } else if next(2) {
                    out.push(Step::Clone { h: map[*h] });
                    let t = nslots;
                    nslots += 1;
                    out.push(Step::Backward { h: t, seed: seed.clone() });
                    out.push(Step::Drop { h: t });
                    n_rewrites += 1;
                    touched = true;
                } else {
                    out.push(Step::Backward { h: map[*h], seed: seed.clone() });
                }
            }
            Step::Update { lr, params } => {
                out.push(Step::Update { lr: *lr, params: params.iter().map(|h| map[*h]).collect() });
                // the update re-binds the parameter's variable to a new array: an observer clone taken earlier
                // keeps showing the old one, so the parameter is read through its own variable from here on
                for h in params {
                    obs[*h] = None;
                }
            }
            // the gradient cell is shared by all clones: clearing through a temporary clone is the same clear
            Step::ClearGrad { h, via_replace } => {
                if next(2) {
                    out.push(Step::Clone { h: map[*h] });
                    out.push(Step::ClearGrad { h: nslots, via_replace: *via_replace });
                    out.push(Step::Drop { h: nslots });
                    nslots += 1;
                    n_rewrites += 1;
                    mark(*h, &mut touched);
                } else {
                    out.push(Step::ClearGrad { h: map[*h], via_replace: *via_replace });
                }
            }
            // a refused call on a handle or on a temporary clone of it: the same (no) effect
            Step::RefusedOp { h } => {
                if next(2) {
                    out.push(Step::Clone { h: map[*h] });
                    out.push(Step::RefusedOp { h: nslots });
                    out.push(Step::Drop { h: nslots });
                    nslots += 1;
                    n_rewrites += 1;
                    mark(*h, &mut touched);
                } else {
                    out.push(Step::RefusedOp { h: map[*h] });
                }
            }
            other => out.push(other.clone()),
        }
        // a detached clone that is never used: `let c = h.clone().untracked(); drop(c);` - flags set on a clone never
        // change the original, and an extra handle never changes a result
        if cur > 0 && next(6) {
            // only handles the base program still names later (so they are alive here, whatever consumed or re-bound others)
            let live: Vec<usize> = (0..cur).filter(|h| !dead[*h] && last_use[*h] > i).collect();
            if !live.is_empty() {
                let h = live[(i * 7 + cur) % live.len()];
                out.push(Step::Clone { h: map[h] });
                out.push(Step::Flag { h: nslots, how: if i % 2 == 0 { FlagOp::Untracked } else { FlagOp::Stop } });
                out.push(Step::Drop { h: nslots });
                nslots += 1;
                n_rewrites += 1;
            }
        }
        // drop handles the program no longer names (their observers stay, to read results at the end)
        for h in 0..cur {
            if !dead[h] && last_use[h] == i && i + 1 < base.steps.len() && next(2) {
                // a handle re-bound in this very step already lives on under the result's name
                if (0..cur).any(|g| g != h && !dead[g] && map[g] == map[h]) {
                    continue;
                }
                out.push(Step::Drop { h: map[h] });
                dead[h] = true;
                n_rewrites += 1;
                mark(h, &mut touched);
            }
        }
    }
    // a handle that was dropped without an observer cannot be read any more: it is not compared (usize::MAX)
    let read: Vec<usize> = (0..nh).map(|h| obs[h].unwrap_or(if dead[h] { usize::MAX } else { map[h] })).collect();
    let other: Vec<Option<usize>> = (0..nh).map(|h| if obs[h].is_some() && !dead[h] { Some(map[h]) } else { None }).collect();
    Variant { hist: History { steps: out }, read, other, n_rewrites, touched_shared_or_root: touched }
}

type Obs = (Vec<usize>, Vec<u64>, Option<(Vec<usize>, Vec<u64>)>);

fn observe(ex: &Exec, slot: usize) -> Option<Obs> {
    let a = ex.slots.get(slot)?.as_ref()?;
    let g = a.gradient().as_ref().map(|g| (g.dimensions().to_vec(), g.values().iter().map(|v| (*v as f64).to_bits()).collect()));
    Some((a.dimensions().to_vec(), a.values().iter().map(|v| (*v as f64).to_bits()).collect(), g))
}

fn show(o: &Obs) -> String {
    format!("dims {:?} values {:?} gradient {:?}", o.0, o.1.iter().take(8).map(|b| f64::from_bits(*b)).collect::<Vec<_>>(), o.2.as_ref().map(|(d, v)| (d.clone(), v.iter().take(8).map(|b| f64::from_bits(*b)).collect::<Vec<_>>())))
}

impl Case12 {
    fn check(&self) -> Result<(Variant, usize), (String, String)> {
        let e = |k: &str, d: String| Err((k.to_string(), d));
        let v = make_variant(&self.base, &self.choices);
        let mut p = Exec::new();
        // whether the caller keeps another handle on a seed is one more "extra handle": the base program hands its
        // seeds over as their only owner, the variant keeps a clone and a view of each alive across the pass
        p.keep_seeds = false;
        for (i, s) in self.base.steps.iter().enumerate() {
            if let Err(pn) = p.step(s) {
                return e("discard", format!("base program panicked at step {}: {}", i, pn));
            }
        }
        let mut q = Exec::new();
        for (i, s) in v.hist.steps.iter().enumerate() {
            if let Err(pn) = q.step(s) {
                if is_discard(&pn) {
                    return e("discard", pn);
                }
                return e("variant-panicked", format!("the variant with clones/drops/re-binding panicked at step {} ({:?}) although the base program ran: {}\nvariant: {}", i, s, pn, hist_sample(&v.hist)));
            }
        }
        let mut compared = 0;
        for h in 0..v.read.len() {
            if v.read[h] == usize::MAX {
                continue;
            }
            let Some(a) = observe(&p, h) else { continue };
            let Some(b) = observe(&q, v.read[h]) else {
                return Err(("internal".into(), format!("variant slot {} of base handle {} is dead", v.read[h], h)));
            };
            compared += 1;
            if a != b {
                let kind = if a.0 != b.0 || a.1 != b.1 { "value-differs" } else { "gradient-differs" };
                return e(kind, format!("base handle {}: base program gives {} but the variant (read through slot {}) gives {}\nvariant: {}", h, show(&a), v.read[h], show(&b), hist_sample(&v.hist)));
            }
            if let Some(o) = v.other[h] {
                if let Some(c) = observe(&q, o) {
                    if c != b {
                        return e("clone-sees-different-gradient", format!("base handle {}: in the variant, slot {} gives {} but its clone in slot {} gives {}\nvariant: {}", h, v.read[h], show(&b), o, show(&c), hist_sample(&v.hist)));
                    }
                }
            }
        }
        Ok((v, compared))
    }
}

impl CaseKind for Case12 {
    const KIND: &'static str = "c12";
    fn size(&self) -> usize {
        self.base.steps.len() * 16 + self.choices.iter().filter(|c| **c != 1).count()
    }
    fn sample(&self) -> Value {
        let v = make_variant(&self.base, &self.choices);
        json!({"base": hist_sample(&self.base), "variant": hist_sample(&v.hist)})
    }
    fn run(&self) -> Outcome {
        let mut k = KeyHasher(hist_key(&self.base));
        match self.check() {
            Ok((v, compared)) => {
                k.u(hist_key(&v.hist));
                let classes = vec![format!("rewrites:{}", v.n_rewrites.min(8)), format!("touches-shared-or-root:{}", v.touched_shared_or_root), format!("passes:{}", self.base.n_backward().min(3))];
                Outcome::pass(v.n_rewrites > 0 && v.touched_shared_or_root && compared > 0 && self.base.n_backward() > 0, k.finish(), classes)
            }
            Err((kind, d)) if kind == "discard" => Outcome::discard(&d),
            Err((kind, d)) if kind == "internal" => Outcome::internal(d),
            Err((kind, d)) => Outcome::fail(&kind, kind.clone(), d, k.finish(), vec![]),
        }
    }
}

pub fn base_cfg(exact: bool, t: Tier) -> GenCfg {
    use Kind::*;
    let mut cfg = GenCfg::programs(exact);
    // gradient-descent updates and clears are part of the base programs: whether a parameter's buffer is shared
    // when the optimizer runs depends only on which handles are alive, which is what the variant changes
    cfg.kinds = vec![(Binary, 30), (Unary, 16), (Leaf, 8), (SumReshape, 8), (Matmul, 7), (Custom, 6), (Flag, 10), (Backward, 9), (Conv, 3), (Retrack, 4), (Update, 5), (ClearGrad, 6), (Refused, 2)];
    cfg.flag_results = true;
    cfg.max_steps = t.pick(14, 36);
    cfg.max_elems = t.pick(48, 200);
    cfg.tracked_pct = 60;
    cfg
}

pub fn dispatch(kind: &str, v: &Value) -> Option<Outcome> {
    match kind {
        "c12" => serde_json::from_value::<Case12>(v.clone()).ok().map(|c| c.run()),
        _ => None,
    }
}

pub fn campaigns(ctx: &Ctx) -> Stats {
    let mut st = Stats::default();
    let t = ctx.tier;
    let (len, total) = t.pick((10usize, 240000u64), (30, 800000));
    for (name, exact) in [("exact-programs", true), ("mixed-programs", false)] {
        let cfg = base_cfg(exact, t);
        let strat = move || (recipe_strategy(len), prop::collection::vec(any::<u8>(), 1..64)).boxed();
        st.merge(ctx.run_prop(name, total / 2, strat, move |(prog, choices)| Some(Case12 { base: elaborate(&cfg, prog), choices: choices.clone() })));
    }
    // several operations of the same geometry on different short-lived arrays: the variant drops each array at its last
    // use, so the next one may be allocated where the previous one lived (anything keyed by an address shows here)
    {
        let strat = move || (any::<u64>(), prop::collection::vec(any::<u8>(), 8..64)).boxed();
        st.merge(ctx.run_prop("same-geometry-on-short-lived-arrays", t.pick(3000, 40000), strat, move |(z, choices)| {
            use OpKind::*;
            let z = *z;
            let kind = z % 4;
            let reps = 3 + (z >> 8) as usize % 4;
            let mut steps: Vec<Step> = vec![];
            // slot 0: the shared second operand (filters / matrix / addend), tracked
            let (xd, sd, op): (Vec<usize>, Vec<usize>, OpKind) = match kind {
                0 => (vec![1, 4, 4], vec![2, 1, 2, 2], Conv { sr: 1, sc: 1 }),
                1 => (vec![2, 1, 3, 5], vec![1, 1, 2, 3], Conv { sr: 1, sc: 2 }),
                2 => (vec![3, 4], vec![4, 2], Matmul { ta: false, tb: false, has_c: false }),
                _ => (vec![2, 3], vec![3], Mul),
            };
            let n = numel(&xd);
            steps.push(Step::Leaf { dims: sd.clone(), vals: refmodel::vals::gen_vals(z ^ 1, numel(&sd), refmodel::vals::VKind::Int), tracked: true });
            let mut results = vec![];
            for r in 0..reps {
                let leaf = steps.iter().filter(|s| matches!(s, Step::Leaf { .. } | Step::Apply(_))).count();
                steps.push(Step::Leaf { dims: xd.clone(), vals: refmodel::vals::gen_vals(z ^ (r as u64 * 77 + 5), n, refmodel::vals::VKind::Int), tracked: false });
                steps.push(Step::Apply(ApplySpec { op: op.clone(), args: vec![leaf, 0] }));
                results.push(leaf + 1);
            }
            // sum the results pairwise and differentiate
            let mut acc = results[0];
            for &r in &results[1..] {
                let next = steps.iter().filter(|s| matches!(s, Step::Leaf { .. } | Step::Apply(_))).count();
                steps.push(Step::Apply(ApplySpec { op: Add, args: vec![acc, r] }));
                acc = next;
            }
            steps.push(Step::Backward { h: acc, seed: None });
            Some(Case12 { base: History { steps }, choices: choices.clone() })
        }));
    }
    for (name, p) in [("programs-with-large-dimensions", Profile::LargeDims), ("programs-with-wide-magnitudes", Profile::WideMagnitudes)] {
        let cfg = base_cfg(false, t).with_profile(p, t == Tier::Thorough, crate::exec::IS_F32);
        let strat = move || (recipe_strategy(len), prop::collection::vec(any::<u8>(), 1..64)).boxed();
        st.merge(ctx.run_prop(name, crate::histcase::profile_total(t, p), strat, move |(prog, choices)| Some(Case12 { base: elaborate(&cfg, prog), choices: choices.clone() })));
    }
    st
}

pub fn run(ctx: &Ctx) -> i32 {
    let mut st = ctx.run_replays(&dispatch);
    st.merge(campaigns(ctx));
    if ctx.tier == Tier::Thorough {
        st.merge(ctx.run_fuzz(20000, ctx.threads, &dispatch));
    }
    finish(
        ctx,
        st,
        "cases = a generated base program P (leaves tracked or not, all operations incl. custom ones, tracked()/untracked()/start/stop_tracking on leaves and results, one or several passes) and a byte string choosing the rewrites of its variant P': an observer clone taken when an array is created (results are read through it), any operand replaced by a temporary clone, a variable re-bound to its new result when the program no longer names the old one, each handle dropped right after its last use, the pass started from a clone of the root taken just before it or from the observer clone taken when the root was created (whatever start/stop_tracking the program has applied to its own handle since). Both are executed on corgi; metamorphic oracle: for every array of P, dimensions, values and the stored gradient (presence, dimensions, values) are bitwise identical in P and P', and inside P' a gradient is identical through every live clone of the same array. Non-trivial = at least one rewrite touches a node with fan-out >= 2 or a root, with at least one pass; distinct by (base structure, variant structure).",
        &["same operations in the same order on both sides, so no tolerance: bitwise comparison", "flags set on a handle after an observer clone was taken do not propagate to the observer (clones copy flags), which the statement requires"],
        json!({}),
    )
}
