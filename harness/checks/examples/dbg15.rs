use checks::c15::*;
use checks::layers::*;
use checks::runner::{CaseKind, Verdict};
use refmodel::ops::Act;
fn main() {
    std::panic::set_hook(Box::new(|_| {}));
    let scales = [15.0, 25.0, 40.0, 60.0, 90.0];
    let nsc = 5u64;
    let mut hit = 0;
    for i in 0..(nsc * 3 * 3 * 2 * 3) {
        let pscale = scales[(i % nsc) as usize];
        let input = 1 + ((i / nsc) % 3) as usize;
        let output = 2 + ((i / nsc / 3) % 3) as usize;
        let act = if (i / nsc / 9) % 2 == 0 { Act::Softmax } else { Act::Sigmoid };
        let batch = 2 + ((i / nsc / 18) % 3) as usize;
        if act != Act::Softmax { continue; }
        let c = Case15::Stack { specs: vec![LayerSpec::Dense { input, output, act }], batch, rows: 1, cols: 1, pseed: i + 11, xseed: i + 12, int_data: true, cost: CostKind::Mse, pscale };
        let out = c.run();
        let acts = acts_for(&[LayerSpec::Dense { input, output, act }]);
        let mut layers = build_layers_scaled(&[LayerSpec::Dense { input, output, act: Act::None }], &acts, i + 11, refmodel::vals::VKind::PosInt, pscale, None);
        let p = read_params(&mut layers);
        let xd = input_dims(&[LayerSpec::Dense { input, output, act }], batch, 1, 1);
        let xv = refmodel::vals::gen_vals(i + 12, xd.iter().product(), refmodel::vals::VKind::PosInt);
        // logits of row 0
        let w = &p[0][0].1; let b = &p[0][1].1;
        let l0: Vec<f64> = (0..output).map(|j| (0..input).map(|k| w[j*input+k]*xv[k]).sum::<f64>() + b[j]).collect();
        let l1: Vec<f64> = (0..output).map(|j| -(0..input).map(|k| w[j*input+k]*xv[k]).sum::<f64>() + b[j]).collect();
        let mx = l0.iter().cloned().fold(f64::MIN, f64::max);
        let ok = mx > 350.0 && mx < 709.0 && l1.iter().all(|v| *v < mx - 745.0);
        if ok { hit += 1; }
        println!("{} s={} {:?} {:?} window={} verdict={}", i, pscale, l0, l1, ok, match out.verdict { Verdict::Pass => "pass".to_string(), Verdict::Discard(w) => format!("discard {}", w), Verdict::Fail(f) => format!("FAIL {}", f.signature), Verdict::Internal(m) => m });
    }
    println!("hits {}", hit);
}
