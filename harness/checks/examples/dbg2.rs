use refmodel::ops; use refmodel::tensor::*;
fn main(){
    let x = T::from_f64(&[2,2], &[375.0,600.0,-325.0,-400.0]);
    let w = T::from_f64(&[2,1], &[25.0, 50.0]);
    let b = T::from_f64(&[2], &[50.0,100.0]);
    let xin = T::from_f64(&[2,1], &[13.0,-13.0]);
    let pre = ops::matmul(&xin,false,&w,true,Some(&b)).unwrap();
    println!("pre {:?} vm {:?}", pre.values(), pre.mags());
    let s = ops::softmax(&pre);
    println!("{:?} {:?}", s.values(), s.mags());
    let s2 = ops::softmax(&x);
    println!("{:?} {:?}", s2.values(), s2.mags());
}
