# shared by bin/check, bin/replay, bin/setup
REPO="${VERIF_REPO:-/repo}"
HARNESS="$ROOT/harness"

repo_hash() {
  (cd "$REPO" && { find src -type f -name '*.rs' | LC_ALL=C sort | xargs sha256sum; sha256sum Cargo.toml; } | sha256sum | cut -d' ' -f1)
}

target_dir() { if [ -n "$1" ]; then echo "$HARNESS/target-$1"; else echo "$HARNESS/target"; fi; }
bin_path() { echo "$(target_dir "$1")/release/corgi-verif"; }

# build_harness <feature|""> : rebuild against the current /repo tree. A tree restored with old
# mtimes would look fresh to cargo, so corgi is cleaned whenever the content hash changes.
build_harness() {
  local feat="$1" td stamp h log
  td="$(target_dir "$feat")"
  stamp="$td/.repo-hash"
  log="$HARNESS/build-$feat.log"
  mkdir -p "$td"
  h="$(repo_hash)"
  (
    flock 9
    if [ ! -f "$stamp" ] || [ "$(cat "$stamp")" != "$h" ]; then
      (cd "$HARNESS" && cargo clean --release -p corgi --target-dir "$td" >/dev/null 2>&1)
    fi
    if [ -n "$feat" ]; then
      (cd "$HARNESS" && cargo build --release -p checks --features "$feat" --target-dir "$td" >"$log" 2>&1)
    else
      (cd "$HARNESS" && cargo build --release -p checks --target-dir "$td" >"$log" 2>&1)
    fi
    rc=$?
    if [ $rc -eq 0 ]; then echo "$h" > "$stamp"; else rm -f "$stamp"; fi
    exit $rc
  ) 9>"$td/.lock"
}

FUZZ="$ROOT/fuzz"
fuzz_bin() { echo "$FUZZ/target/x86_64-unknown-linux-gnu/release/fuzz_all"; }

# build_fuzz : (re)build the libFuzzer target against the current /repo tree (nightly toolchain, no sanitizer:
# corgi has no unsafe code in the non-BLAS build; debug assertions and overflow checks stay on)
build_fuzz() {
  local stamp h log
  stamp="$FUZZ/target/.repo-hash"; log="$FUZZ/build.log"
  mkdir -p "$FUZZ/target"
  h="$(repo_hash)"
  (
    flock 9
    if [ ! -f "$stamp" ] || [ "$(cat "$stamp")" != "$h" ]; then
      (cd "$FUZZ" && cargo +nightly clean --release -p corgi --target x86_64-unknown-linux-gnu >/dev/null 2>&1)
    fi
    (cd "$FUZZ" && cargo +nightly fuzz build -s none --fuzz-dir . >"$log" 2>&1)
    rc=$?
    if [ $rc -eq 0 ]; then echo "$h" > "$stamp"; else rm -f "$stamp"; fi
    exit $rc
  ) 9>"$FUZZ/target/.lock"
}
